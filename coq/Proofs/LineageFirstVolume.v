(* C19 (volumes; derived from LineageFirstRow.v by the same argument): "every daughter starts ... from exactly such a partition": over the reals and without rules on species, a cell simulated
   on a grid whose first time is the cell's own time reports, as its FIRST row, exactly the state it was handed -- no reaction, rule
   or event precedes it (also when the cell divides or dies at its very first check). *)
From Coq Require Import ZArith Reals List Bool Lia Lra Arith.
From BS Require Import Base.Arith Model.Term Model.Propensity Model.Interface Model.Rules Model.Random Model.Queue Model.SSA Model.Splitters Model.Lineage
  Proofs.SSAProofs Proofs.VolumeRun.
Import ListNotations.
Local Open Scope R_scope.

Section FirstVol.
  Variable l : lin R.
  Variables pi2 eps9 eps7 : R.
  Variable u : nat -> R.
  Hypothesis no_rules : sm_rules (ln_sim l) = [].
  Hypothesis Hu : forall n, 0 < u n <= 1.
  Hypothesis Hprops : forall x p V t, 0 <= array_sum ArithR (lin_props ArithR l x p V t).

  (* an iteration only appends rows *)
  Lemma lssa_iter_vols_extend dt final t_init V_init st st' :
    lssa_iter ArithR pi2 eps9 eps7 l dt final t_init V_init u st = Done st' -> exists r, ls_vols st' = ls_vols st ++ r.
  Proof.
    intros H. unfold lssa_iter in H.
    destruct (ls_todo st) as [|tnext todo]; [inversion H; subst; exists []; rewrite app_nil_r; reflexivity|].
    destruct (apply_rules ArithR (sm_rules (ln_sim l)) (Some (ls_V st)) (ls_x st, ls_p st) (ls_time st) dt (ls_rule_step st)) as [x1 p1].
    destruct (first_true _ (ln_krules l) 0%Z (ls_pos st)) as [dead posa].
    destruct (first_true _ (ln_drules l) 0%Z posa) as [divd posb].
    destruct (0 <=? dead)%Z; [inversion H; subst; exists []; cbn; rewrite app_nil_r; reflexivity|].
    destruct (0 <=? divd)%Z; [inversion H; subst; exists []; cbn; rewrite app_nil_r; reflexivity|].
    set (props := lin_props ArithR l x1 p1 (ls_V st) (ls_time st)) in *.
    set (Lambda := array_sum ArithR props) in *.
    destruct (if feqb ArithR Lambda (f0 ArithR) then ((if fltb ArithR (fadd ArithR (ls_time st) dt) (ls_next_q st) then ls_next_q st else fadd ArithR (ls_time st) dt), true, posb)
              else let '(tau, pos') := exponential_rv ArithR Lambda u posb in (fadd ArithR (ls_time st) tau, false, pos')) as [[proposed rs] pos1].
    destruct (if (fltb ArithR (ls_next_q st) proposed || feqb ArithR Lambda (f0 ArithR) && fleb ArithR (ls_next_q st) proposed) && fltb ArithR (ls_next_q st) final
              then (ls_next_q st, fadd ArithR (ls_next_q st) dt, true, true)
              else if fltb ArithR (fsub ArithR final eps7) proposed then (final, ls_next_q st, true, true) else (proposed, ls_next_q st, false, rs)) as [[[time' nq'] toq] rs'].
    destruct (record ArithR (tnext :: todo) time' x1) as [rows rem].
    destruct toq.
    - destruct (apply_volume_rules ArithR pi2 (ln_vrules l) x1 p1 (ls_V st) time' dt u pos1) as [V' posv].
      destruct (fleb ArithR V' (f0 ArithR)); [discriminate|]. inversion H; subst. exists (map (fun _ => ls_V st) rows). reflexivity.
    - destruct (sample_discrete ArithR props Lambda u pos1) as [choice pos2].
      destruct ((choice <? 0)%Z || (Z.of_nat (length props) <=? choice)%Z); [discriminate|].
      destruct (Z.to_nat choice <? length (si_props (sm_if (ln_sim l))))%nat; [inversion H; subst; exists (map (fun _ => ls_V st) rows); reflexivity|].
      destruct (Z.to_nat choice <? length (si_props (sm_if (ln_sim l))) + length (ln_vevents l))%nat.
      { match type of H with context [fleb ArithR ?v (f0 ArithR)] => destruct (fleb ArithR v (f0 ArithR)) end; [discriminate|]. inversion H; subst. exists (map (fun _ => ls_V st) rows). reflexivity. }
      destruct (Z.to_nat choice <? length (si_props (sm_if (ln_sim l))) + length (ln_vevents l) + length (ln_devents l))%nat; inversion H; subst; exists (map (fun _ => ls_V st) rows); reflexivity.
  Qed.

  Lemma lssa_loop_vols_extend dt final t_init V_init fuel : forall st st',
    lssa_loop ArithR pi2 eps9 eps7 fuel l dt final t_init V_init u st = Done st' -> exists r, ls_vols st' = ls_vols st ++ r.
  Proof.
    induction fuel as [|f IH]; intros st st' H; simpl in H.
    - destruct (ls_todo st); [inversion H; subst; exists []; rewrite app_nil_r; reflexivity|].
      destruct (ls_stop st); [inversion H; subst; exists []; rewrite app_nil_r; reflexivity|discriminate].
    - destruct (ls_todo st); [inversion H; subst; exists []; rewrite app_nil_r; reflexivity|].
      destruct (ls_stop st); [inversion H; subst; exists []; rewrite app_nil_r; reflexivity|].
      destruct (lssa_iter ArithR pi2 eps9 eps7 l dt final t_init V_init u st) as [st1| |w] eqn:E; try discriminate.
      destruct (lssa_iter_vols_extend _ _ _ _ _ _ E) as (r1 & E1). destruct (IH st1 st' H) as (r2 & E2).
      exists (r1 ++ r2). rewrite E2, E1, app_assoc. reflexivity.
  Qed.

  Lemma lssa_finish_vols_extend st : exists r, ls_vols (lssa_finish ArithR st) = ls_vols st ++ r.
  Proof.
    unfold lssa_finish. destruct ((0 <=? ls_divided st)%Z || (0 <=? ls_dead st)%Z); [|exists []; rewrite app_nil_r; reflexivity].
    destruct (ls_todo st) as [|t rest]; [exists []; rewrite app_nil_r; reflexivity|].
    destruct (fltb ArithR (ls_time st) t || match ls_rows st with [] => true | _ => false end); [|exists []; rewrite app_nil_r; reflexivity].
    cbn. eexists. reflexivity.
  Qed.

  (* the first iteration from the initial state, clock at the first grid time: either the cell stops with nothing recorded and its
     state untouched, or the first row recorded is the initial state *)
  Lemma first_iter_v t0 t1 ts' final t_init V_init V x0 pos st1 : t0 <= t1 -> t0 <= final ->
    lssa_iter ArithR pi2 eps9 eps7 l (t1 - t0) final t_init V_init u
      (mkLst t0 (t0 :: t1 :: ts') x0 (si_params (sm_if (ln_sim l))) true pos [] [] t1 V (-1)%Z (-1)%Z false) = Done st1 ->
    (ls_stop st1 = true /\ ls_rows st1 = [] /\ ls_vols st1 = [] /\ ls_V st1 = V /\ ls_todo st1 = t0 :: t1 :: ts' /\ ((0 <=? ls_divided st1)%Z || (0 <=? ls_dead st1)%Z) = true) \/
    (exists r, ls_vols st1 = V :: r).
  Proof.
    intros H01 H0f H. unfold lssa_iter in H. cbn [ls_todo ls_V ls_x ls_p ls_time ls_rule_step ls_pos ls_rows ls_vols ls_next_q] in H.
    rewrite no_rules in H. cbn [apply_rules fold_left] in H.
    destruct (first_true _ (ln_krules l) 0%Z pos) as [dead posa].
    destruct (first_true _ (ln_drules l) 0%Z posa) as [divd posb].
    destruct (0 <=? dead)%Z eqn:Ed.
    { inversion H; subst st1. left. cbn. rewrite Ed, ?orb_true_r. auto 6. }
    destruct (0 <=? divd)%Z eqn:Ev.
    { inversion H; subst st1. left. cbn. rewrite Ev, ?orb_true_l. auto 6. }
    set (p0 := si_params (sm_if (ln_sim l))) in *.
    set (props := lin_props ArithR l x0 p0 V t0) in *.
    set (Lambda := array_sum ArithR props) in *.
    assert (HL : 0 <= Lambda) by apply Hprops.
    (* every possible new clock value is at or after t0 *)
    assert (Hsel : exists proposed rs pos1 time' nq' toq rs',
      (if feqb ArithR Lambda (f0 ArithR) then ((if fltb ArithR (fadd ArithR t0 (t1 - t0)) t1 then t1 else fadd ArithR t0 (t1 - t0)), true, posb)
       else let '(tau, pos') := exponential_rv ArithR Lambda u posb in (fadd ArithR t0 tau, false, pos')) = (proposed, rs, pos1) /\
      (if (fltb ArithR t1 proposed || feqb ArithR Lambda (f0 ArithR) && fleb ArithR t1 proposed) && fltb ArithR t1 final
       then (t1, fadd ArithR t1 (t1 - t0), true, true)
       else if fltb ArithR (fsub ArithR final eps7) proposed then (final, t1, true, true) else (proposed, t1, false, rs)) = (time', nq', toq, rs') /\
      t0 <= time').
    { change (feqb ArithR Lambda (f0 ArithR)) with (Reqb Lambda 0). destruct (Reqb Lambda 0) eqn:E0.
      - change (fadd ArithR t0 (t1 - t0)) with (t0 + (t1 - t0)).
        assert (Hp : t0 <= (if fltb ArithR (t0 + (t1 - t0)) t1 then t1 else t0 + (t1 - t0))) by (destruct (fltb ArithR (t0 + (t1 - t0)) t1); lra).
        set (proposed := if fltb ArithR (t0 + (t1 - t0)) t1 then t1 else t0 + (t1 - t0)) in *.
        destruct ((fltb ArithR t1 proposed || true && fleb ArithR t1 proposed) && fltb ArithR t1 final) eqn:Ec.
        + exists proposed, true, posb. do 4 eexists. split; [reflexivity|]. rewrite Ec. split; [reflexivity|]. exact H01.
        + destruct (fltb ArithR (fsub ArithR final eps7) proposed) eqn:Ef; exists proposed, true, posb; do 4 eexists; (split; [reflexivity|]); rewrite Ec, Ef; (split; [reflexivity|]); assumption.
      - pose proof (tau_nonneg u Hu Lambda posb HL E0) as Ht.
        destruct (exponential_rv ArithR Lambda u posb) as [tau pos'] eqn:Ee. cbn [fst] in Ht.
        change (fadd ArithR t0 tau) with (t0 + tau).
        destruct ((fltb ArithR t1 (t0 + tau) || false && fleb ArithR t1 (t0 + tau)) && fltb ArithR t1 final) eqn:Ec.
        + exists (t0 + tau), false, pos'. do 4 eexists. split; [reflexivity|]. rewrite Ec. split; [reflexivity|]. exact H01.
        + destruct (fltb ArithR (fsub ArithR final eps7) (t0 + tau)) eqn:Ef; exists (t0 + tau), false, pos'; do 4 eexists; (split; [reflexivity|]); rewrite Ec, Ef; (split; [reflexivity|]); lra. }
    destruct Hsel as (proposed & rs & pos1 & time' & nq' & toq & rs' & Hs1 & Hs2 & Hge).
    rewrite Hs1 in H. rewrite Hs2 in H. clear Hs1 Hs2.
    assert (Hrec : exists rows rem, record ArithR (t0 :: t1 :: ts') time' x0 = (x0 :: rows, rem)).
    { cbn [record]. change (fleb ArithR t0 time') with (Rleb t0 time'). replace (Rleb t0 time') with true by (symmetry; apply Rleb_true; exact Hge).
      destruct (if fleb ArithR t1 time' then let '(rows, rem) := record ArithR ts' time' x0 in (x0 :: rows, rem) else ([], t1 :: ts')) as [rows rem].
      exists rows, rem. reflexivity. }
    destruct Hrec as (rows & rem & Hrec). rewrite Hrec in H.
    right. destruct toq.
    - destruct (apply_volume_rules ArithR pi2 (ln_vrules l) x0 p0 V time' (t1 - t0) u pos1) as [V' posv].
      destruct (fleb ArithR V' (f0 ArithR)); [discriminate|]. inversion H; subst. cbn. eexists. reflexivity.
    - destruct (sample_discrete ArithR props Lambda u pos1) as [choice pos2].
      destruct ((choice <? 0)%Z || (Z.of_nat (length props) <=? choice)%Z); [discriminate|].
      destruct (Z.to_nat choice <? length (si_props (sm_if (ln_sim l))))%nat; [inversion H; subst; cbn; eexists; reflexivity|].
      destruct (Z.to_nat choice <? length (si_props (sm_if (ln_sim l))) + length (ln_vevents l))%nat.
      { match type of H with context [fleb ArithR ?v (f0 ArithR)] => destruct (fleb ArithR v (f0 ArithR)) end; [discriminate|]. inversion H; subst. cbn. eexists. reflexivity. }
      destruct (Z.to_nat choice <? length (si_props (sm_if (ln_sim l))) + length (ln_vevents l) + length (ln_devents l))%nat; inversion H; subst; cbn; eexists; reflexivity.
  Qed.

  Theorem first_volume_is_birth_volume fuel t0 t1 ts' t_init V V_init x0 pos st :
    t0 <= t1 -> t0 <= last (t0 :: t1 :: ts') t0 ->
    lssa_simulate ArithR pi2 eps9 eps7 fuel l (t0 :: t1 :: ts') t0 t_init V V_init x0 u pos = Done st ->
    exists rest, ls_vols st = V :: rest.
  Proof.
    intros H01 H0f H. unfold lssa_simulate in H. change (fsub ArithR t1 t0) with (t1 - t0) in H.
    set (fin := last (t0 :: t1 :: ts') t0) in *.
    set (st0 := mkLst t0 (t0 :: t1 :: ts') x0 (si_params (sm_if (ln_sim l))) true pos [] [] t1 V (-1)%Z (-1)%Z false) in *.
    destruct (lssa_loop ArithR pi2 eps9 eps7 fuel l (t1 - t0) fin t_init V_init u st0) as [stL| |w] eqn:EL; try discriminate.
    inversion H; subst st; clear H.
    destruct fuel as [|f]; [simpl in EL; discriminate|].
    simpl in EL. destruct (lssa_iter ArithR pi2 eps9 eps7 l (t1 - t0) fin t_init V_init u st0) as [st1| |w] eqn:E1; try discriminate.
    destruct (first_iter_v t0 t1 ts' fin t_init V_init V x0 pos st1 H01 H0f E1) as [(Hstop & Hrows & Hvols & HV & Htodo & Hdd)|(r & Hr)].
    - (* stopped before anything was recorded: the loop ends, the finish pushes the untouched volume *)
      assert (stL = st1).
      { destruct f; simpl in EL; rewrite Htodo, Hstop in EL; inversion EL; reflexivity. }
      subst stL. unfold lssa_finish. rewrite Hdd, Htodo, Hrows, orb_true_r. cbn. rewrite Hvols, HV. eexists. reflexivity.
    - destruct (lssa_loop_vols_extend _ _ _ _ f st1 stL EL) as (r2 & E2).
      destruct (lssa_finish_vols_extend stL) as (r3 & E3). rewrite E3, E2, Hr. cbn. eexists. reflexivity.
  Qed.
End FirstVol.
