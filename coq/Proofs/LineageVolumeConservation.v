(* C19, volumes in observable terms (reals, no rules on species): the FIRST reported volumes of the two daughters of a cell sum to
   that cell's LAST reported volume (both equal it when the splitter duplicates the volume), whenever the cell's last reported time
   is one of the requested times. *)
From Coq Require Import ZArith Reals List Bool Lia Lra Arith Sorted.
From BS Require Import Base.Arith Model.Term Model.Propensity Model.Interface Model.Rules Model.Random Model.Queue Model.SSA Model.Splitters Model.Lineage Model.Worklist
  Proofs.ListLemmas Proofs.SSAProofs Proofs.VolumeRun Proofs.SplitProofs Proofs.WorklistProofs Proofs.WorklistProvenance Proofs.PairProvenance
  Proofs.LineageFirstVolume Proofs.LineageConservation.
Import ListNotations.
Local Open Scope R_scope.

(* the volume part of LineageVolumeSplitter.partition, whatever the species lists *)
Lemma lineage_volume_split vmode perfect binomial noise (x : list R) V (u : nat -> R) pos :
  let r := partition_lineage ArithR vmode perfect binomial noise x V u pos in
  if Nat.eqb vmode 1 then d_vol r = V /\ e_vol r = V else d_vol r + e_vol r = V.
Proof.
  cbv zeta. unfold partition_lineage.
  set (pv := match vmode with
             | O => let p := fsub ArithR (half_ ArithR) (fdiv ArithR (fmul ArithR (u pos) noise) (fofZ ArithR 2)) in (p, fmul ArithR V p, fmul ArithR V (fsub ArithR (fofZ ArithR 1) p), S pos)
             | S O => (fofZ ArithR 1, V, V, pos)
             | _ => (half_ ArithR, fmul ArithR V (half_ ArithR), fmul ArithR V (half_ ArithR), pos)
             end).
  assert (Hvol : if Nat.eqb vmode 1 then snd (fst (fst pv)) = V /\ snd (fst pv) = V else snd (fst (fst pv)) + snd (fst pv) = V).
  { unfold pv. destruct vmode as [|[|v]]; simpl; unfold half_; simpl; try lra; try (split; reflexivity). }
  destruct pv as [[[p vd] ve] pos0]. cbn [fst snd] in Hvol.
  destruct (fold_split (split_perfect ArithR (perfect_value_lineage ArithR) p) perfect (x, x) u pos0) as [de1 pos1].
  destruct (fold_split (split_binomial ArithR p) binomial de1 u pos1) as [de2 pos2].
  cbn [d_vol e_vol]. exact Hvol.
Qed.

Section VolConservation.
  Variable l : lin R.
  Variables pi2 eps9 eps7 eps12 : R.
  Variable u : nat -> R.
  Hypothesis no_rules : sm_rules (ln_sim l) = [].
  Hypothesis Hu : forall n, 0 < u n <= 1.
  Hypothesis Hprops : forall x p V t, 0 <= array_sum ArithR (lin_props ArithR l x p V t).

  Lemma cell_first_vol fuel t rest (d : cellstate R) pos st : StronglySorted Rlt (t :: rest) -> cs_time d = t -> cs_t0 d = t ->
    cell_simulate ArithR pi2 eps9 eps7 fuel l (t :: rest) d u pos = Done st -> exists r, ls_vols st = cs_V d :: r.
  Proof.
    intros Hs Ht Ht0 H. unfold cell_simulate in H. destruct rest as [|t1 ts''].
    - rewrite Ht0 in H. change (fleb ArithR t t) with (Rleb t t) in H. replace (Rleb t t) with true in H by (symmetry; apply Rleb_true; lra).
      inversion H; subst st. cbn. eexists. reflexivity.
    - rewrite Ht in H.
      apply (first_volume_is_birth_volume l pi2 eps9 eps7 u no_rules Hu Hprops fuel t t1 ts'' (cs_t0 d) (cs_V d) (cs_V0 d) (cs_x d) pos st); auto.
      + inversion Hs as [|? ? _ Hall]; subst. inversion Hall; subst. lra.
      + apply sorted_head_le_last. exact Hs.
  Qed.

  Theorem lineage_volumes_conserved cfuel fuel sps ts cells pos w : StronglySorted Rlt ts ->
    simulate_lineage ArithR pi2 eps9 eps7 eps12 cfuel fuel l sps ts cells u pos = Done w ->
    forall p m a b, nth_error (w_lineage w) p = Some m -> sz_daughters m = Some (a, b) ->
    exists tts0 st0 sp sa sb,
      data_of m tts0 st0 /\ nth_error (w_lineage w) a = Some sa /\ nth_error (w_lineage w) b = Some sb /\
      let c := final_cell ArithR tts0 st0 in
      nth_error sps (Z.to_nat (cs_divided c)) = Some sp /\
      (In (cs_time c) ts ->
       exists va ra vb rb, sz_vols sa = va :: ra /\ sz_vols sb = vb :: rb /\
         (if Nat.eqb (sp_vmode sp) 1 then va = cs_V c /\ vb = cs_V c else va + vb = cs_V c)).
  Proof.
    intros Hs H p m a b Hp Hd.
    destruct (lineage_pairs_born ArithR pi2 eps9 eps7 eps12 cfuel fuel l sps ts cells u pos w H p m a b Hp Hd)
      as (tts0 & st0 & sp & upos & pos1 & pos2 & st1 & st2 & sa & sb & Dm & _ & Hsp & Ha & Hb & H1 & H2 & (_ & _ & Va) & (_ & _ & Vb)).
    exists tts0, st0, sp, sa, sb. split; [exact Dm|]. split; [exact Ha|]. split; [exact Hb|]. cbv zeta. split; [exact Hsp|].
    intros Hin.
    destruct (truncate_at_member ts _ Hs Hin) as (rest & Etr & Hsr). rewrite Etr in H1, H2.
    set (c := final_cell ArithR tts0 st0) in *.
    destruct (cell_first_vol fuel (cs_time c) rest (fst (daughter_cells ArithR c sp u upos)) pos1 st1 Hsr eq_refl eq_refl H1) as (r1 & E1).
    destruct (cell_first_vol fuel (cs_time c) rest (snd (daughter_cells ArithR c sp u upos)) pos2 st2 Hsr eq_refl eq_refl H2) as (r2 & E2).
    unfold daughter_cells in E1, E2. cbn [fst snd cs_V] in E1, E2.
    eexists _, r1, _, r2. split; [rewrite Va; exact E1|]. split; [rewrite Vb; exact E2|].
    exact (lineage_volume_split (sp_vmode sp) (sp_perfect sp) (sp_binomial sp) (sp_noise sp) (cs_x c) (cs_V c) u upos).
  Qed.
End VolConservation.
