(* C09: whole-run counting for the delay-capable loop over the reals: on a strictly increasing grid the rules with
   frequency dt (which fire exactly in the iterations that start with rule_step set) are applied exactly once per
   reported row, before the row is recorded -- however many reactions fire and however many queued deliveries are
   made in between; for every stream, network, delay law, queue and fuel, provided no firing time coincides exactly
   with a grid time (a null event). *)
From Coq Require Import ZArith Reals List Bool Lia Lra Arith Sorted.
From BS Require Import Base.Arith Model.Term Model.Propensity Model.Interface Model.Rules Model.Random Model.Queue Model.SSA
  Proofs.SSAProofs Proofs.VolumeRun.
Import ListNotations.
Local Open Scope R_scope.

Section DCount.
  Variable s : sim R.
  Variable pi2 : R.
  Variable gfuel : nat.
  Variable u : nat -> R.
  Notation dt := (sm_dt s).

  Fixpoint drun (n : nat) (st : dssa_state (F:=R)) : outcome (dssa_state (F:=R)) :=
    match n with
    | O => Done st
    | S k => match dssa_iter ArithR pi2 gfuel s u st with Done st' => drun k st' | OutOfFuel => OutOfFuel | Fault w => Fault w end
    end.
  Definition dlive (st : dssa_state (F:=R)) : bool := match ds_todo st with [] => false | _ => true end.
  Fixpoint dapps (n : nat) (st : dssa_state (F:=R)) : nat :=
    match n with
    | O => 0%nat
    | S k => ((if ds_rule_step st && dlive st then 1 else 0) +
              match dssa_iter ArithR pi2 gfuel s u st with Done st' => dapps k st' | _ => 0 end)%nat
    end.

  Definition dLambda_of (st : dssa_state (F:=R)) : R :=
    let '(x1, p1) := apply_rules ArithR (sm_rules s) None (ds_x st, ds_p st) (ds_time st) dt (ds_rule_step st) in
    array_sum ArithR (stoch_props ArithR s Stoch x1 p1 1 (ds_time st)).
  Definition dproposed_of (st : dssa_state (F:=R)) : R :=
    ds_time st + fst (exponential_rv ArithR (dLambda_of st) u (ds_pos st)).
  Definition dnotie (st : dssa_state (F:=R)) : Prop :=
    match ds_todo st with [] => True | tnext :: _ => dLambda_of st <> 0 -> dproposed_of st <> tnext end.
  Fixpoint dnotie_run (n : nat) (st : dssa_state (F:=R)) : Prop :=
    match n with
    | O => True
    | S k => dnotie st /\ match dssa_iter ArithR pi2 gfuel s u st with Done st' => dnotie_run k st' | _ => True end
    end.

  (* one iteration on a strictly increasing remaining grid that is not behind the clock: a stop at the grid point
     (one row, rule_step set) or a firing / a queued delivery strictly before it (no row, rule_step cleared) *)
  Lemma dssa_iter_cases st st' tnext rest :
    ds_todo st = tnext :: rest -> ds_time st <= tnext -> (forall t r, rest = t :: r -> tnext < t) -> dnotie st ->
    dssa_iter ArithR pi2 gfuel s u st = Done st' ->
    let x1 := fst (apply_rules ArithR (sm_rules s) None (ds_x st, ds_p st) (ds_time st) dt (ds_rule_step st)) in
    (ds_time st' = tnext /\ ds_rule_step st' = true /\ ds_rows st' = ds_rows st ++ [x1] /\ ds_todo st' = rest) \/
    (ds_time st' < tnext /\ ds_rule_step st' = false /\ ds_rows st' = ds_rows st /\ ds_todo st' = tnext :: rest).
  Proof.
    intros Et Hle Hnext Hnt H. unfold dnotie in Hnt. rewrite Et in Hnt. unfold dproposed_of, dLambda_of in Hnt.
    unfold dssa_iter in H. rewrite Et in H. cbv zeta.
    destruct (apply_rules ArithR (sm_rules s) None (ds_x st, ds_p st) (ds_time st) dt (ds_rule_step st)) as [x1 p1] eqn:Er.
    cbn [fst]. change (f1 ArithR) with 1 in H.
    set (props := stoch_props ArithR s Stoch x1 p1 1 (ds_time st)) in *.
    set (Lambda := array_sum ArithR props) in *.
    assert (Hrec1 : record ArithR (tnext :: rest) tnext x1 = ([x1], rest)).
    { cbn [record]. change (fleb ArithR tnext tnext) with (Rleb tnext tnext).
      replace (Rleb tnext tnext) with true by (symmetry; apply Rleb_true; lra).
      destruct rest as [|t r]; [reflexivity|]. cbn [record]. change (fleb ArithR t tnext) with (Rleb t tnext).
      replace (Rleb t tnext) with false; [reflexivity|]. symmetry. apply Rleb_false. apply (Hnext t r eq_refl). }
    assert (Hrec0 : forall T, T < tnext -> record ArithR (tnext :: rest) T x1 = ([], tnext :: rest)).
    { intros T HT. cbn [record]. change (fleb ArithR tnext T) with (Rleb tnext T).
      replace (Rleb tnext T) with false; [reflexivity|]. symmetry. apply Rleb_false. exact HT. }
    (* the proposal after the clamp to the grid point *)
    assert (Hprop : exists proposed fired rs pos1,
      (let '(proposed, fired, rs, pos1) :=
         if feqb ArithR Lambda (f0 ArithR) then (tnext, false, true, ds_pos st)
         else let '(tau, pos') := exponential_rv ArithR Lambda u (ds_pos st) in (fadd ArithR (ds_time st) tau, true, false, pos') in
       let '(proposed, fired, rs) := if fltb ArithR tnext proposed then (tnext, false, true) else (proposed, fired, rs) in
       (proposed, fired, rs, pos1)) = (proposed, fired, rs, pos1) /\
      ((proposed = tnext /\ fired = false /\ rs = true) \/ (proposed < tnext /\ fired = true /\ rs = false))).
    { change (feqb ArithR Lambda (f0 ArithR)) with (Reqb Lambda 0). destruct (Reqb Lambda 0) eqn:E0.
      - change (fltb ArithR tnext tnext) with (Rltb tnext tnext).
        replace (Rltb tnext tnext) with false by (symmetry; apply Rltb_false; lra).
        do 4 eexists. split; [reflexivity|]. left. auto.
      - assert (Hne : Lambda <> 0). { intros E. rewrite E in E0. unfold Reqb in E0. destruct (Req_EM_T 0 0); [discriminate|lra]. }
        specialize (Hnt Hne).
        destruct (exponential_rv ArithR Lambda u (ds_pos st)) as [tau pos'] eqn:Ee. cbn [fst] in Hnt.
        change (fadd ArithR (ds_time st) tau) with (ds_time st + tau).
        change (fltb ArithR tnext (ds_time st + tau)) with (Rltb tnext (ds_time st + tau)).
        destruct (Rltb tnext (ds_time st + tau)) eqn:Eq.
        + do 4 eexists. split; [reflexivity|]. left. auto.
        + apply Rltb_false in Eq. do 4 eexists. split; [reflexivity|]. right. split; [lra|auto]. }
    destruct Hprop as (proposed & fired & rs & pos1 & Hpe & Hcase).
    assert (H' : (let '(time', to_queue, fired0, rs0) :=
                    if fltb ArithR (q_next_time (ds_q st)) proposed then (q_next_time (ds_q st), true, false, false) else (proposed, false, fired, rs) in
                  let '(rows, rem) := record ArithR (tnext :: rest) time' x1 in
                  if to_queue then
                    let amts := q_peek (f0 ArithR) (ds_q st) in
                    Done (mkDssa time' rem (deliver ArithR x1 (si_Sd (sm_if s)) amts) p1 rs0 pos1 (ds_rows st ++ rows) (q_advance ArithR (f0 ArithR) (ds_q st)))
                  else if fired0 then
                    let '(choice, pos2) := sample_discrete ArithR props Lambda u pos1 in
                    if (choice <? 0)%Z || (Z.of_nat (length props) <=? choice)%Z then Fault 1
                    else
                      let r := Z.to_nat choice in
                      match compute_delay ArithR pi2 gfuel (nth r (sm_delays s) DNone) p1 u pos2 with
                      | None => Fault 2
                      | Some (dl, pos3) =>
                        let x2 := add_col ArithR x1 (si_S (sm_if s)) r in
                        if fltb ArithR (f0 ArithR) dl then
                          match q_add ArithR (fadd ArithR) (ds_q st) (fadd ArithR time' dl) r (f1 ArithR) with
                          | None => Fault 3
                          | Some q' => Done (mkDssa time' rem x2 p1 rs0 pos3 (ds_rows st ++ rows) q')
                          end
                        else Done (mkDssa time' rem (add_col ArithR x2 (si_Sd (sm_if s)) r) p1 rs0 pos3 (ds_rows st ++ rows) (ds_q st))
                      end
                  else Done (mkDssa time' rem x1 p1 rs0 pos1 (ds_rows st ++ rows) (ds_q st))) = Done st').
    { revert Hpe H. clear.
      destruct (if feqb ArithR Lambda (f0 ArithR) then (tnext, false, true, ds_pos st)
                else let '(tau, pos') := exponential_rv ArithR Lambda u (ds_pos st) in (fadd ArithR (ds_time st) tau, true, false, pos')) as [[[pr0 f0'] rs0'] ps0].
      destruct (if fltb ArithR tnext pr0 then (tnext, false, true) else (pr0, f0', rs0')) as [[pr1 f1'] rs1'].
      intros Hpe H. inversion Hpe; subst. exact H. }
    clear H Hpe.
    change (fltb ArithR (q_next_time (ds_q st)) proposed) with (Rltb (q_next_time (ds_q st)) proposed) in H'.
    destruct (Rltb (q_next_time (ds_q st)) proposed) eqn:Eq.
    - (* a queued delivery comes first *)
      apply Rltb_true in Eq.
      assert (Hqt : q_next_time (ds_q st) < tnext) by (destruct Hcase as [(-> & _)|(Hp & _)]; lra).
      rewrite (Hrec0 _ Hqt) in H'. inversion H'; subst st'. right. cbn. rewrite app_nil_r. auto.
    - destruct Hcase as [(-> & -> & ->)|(Hp & -> & ->)].
      + rewrite Hrec1 in H'. inversion H'; subst st'. left. cbn. auto.
      + rewrite (Hrec0 _ Hp) in H'. cbv zeta in H'.
        destruct (sample_discrete ArithR props Lambda u pos1) as [choice pos2].
        destruct ((choice <? 0)%Z || (Z.of_nat (length props) <=? choice)%Z); [discriminate|].
        destruct (compute_delay ArithR pi2 gfuel (nth (Z.to_nat choice) (sm_delays s) DNone) p1 u pos2) as [[dl pos3]|]; [|discriminate].
        destruct (fltb ArithR (f0 ArithR) dl).
        * destruct (q_add ArithR (fadd ArithR) (ds_q st) (fadd ArithR proposed dl) (Z.to_nat choice) (f1 ArithR)) as [q'|]; [|discriminate].
          inversion H'; subst st'. right. cbn. rewrite app_nil_r. auto.
        * inversion H'; subst st'. right. cbn. rewrite app_nil_r. auto.
  Qed.

  Record dcount_inv (N : nat) (st : dssa_state (F:=R)) (c : nat) : Prop := {
    dn_count : c = (length (ds_rows st) + (if ds_rule_step st then 0 else 1))%nat;
    dn_total : (length (ds_rows st) + length (ds_todo st))%nat = N;
    dn_clock : forall t r, ds_todo st = t :: r -> ds_time st <= t;
    dn_sorted : StronglySorted Rlt (ds_todo st)
  }.

  Lemma dcount_step N st st' c : dcount_inv N st c -> dnotie st -> dssa_iter ArithR pi2 gfuel s u st = Done st' ->
    dcount_inv N st' (c + (if ds_rule_step st && dlive st then 1 else 0)).
  Proof.
    intros [Hc Ht Hclk Hs] Hnt H. unfold dlive.
    destruct (ds_todo st) as [|tnext rest] eqn:Et.
    - unfold dssa_iter in H. rewrite Et in H. inversion H; subst st'. rewrite andb_false_r, Nat.add_0_r.
      constructor; [exact Hc | rewrite Et; exact Ht | intros t r E; rewrite Et in E; discriminate | rewrite Et; exact Hs].
    - rewrite andb_true_r.
      assert (Hnext : forall t r, rest = t :: r -> tnext < t).
      { intros t r ->. inversion Hs as [|? ? ? Hall]; subst. inversion Hall; auto. }
      destruct (dssa_iter_cases st st' tnext rest Et (Hclk _ _ eq_refl) Hnext Hnt H) as [(T & Rs & Rw & Td)|(T & Rs & Rw & Td)].
      + constructor.
        * rewrite Rs, Rw, app_length. cbn [length]. rewrite Hc. destruct (ds_rule_step st); lia.
        * rewrite Rw, Td, app_length. cbn [length] in *. lia.
        * intros t r E. rewrite Td in E. rewrite T. left. apply (Hnext t r E).
        * rewrite Td. inversion Hs; auto.
      + constructor.
        * rewrite Rs, Rw, Hc. destruct (ds_rule_step st); lia.
        * rewrite Rw, Td. exact Ht.
        * intros t r E. rewrite Td in E. inversion E; subst. lra.
        * rewrite Td. exact Hs.
  Qed.

  Theorem dcount_prefix N n : forall st st' c, dcount_inv N st c -> dnotie_run n st -> drun n st = Done st' ->
    dcount_inv N st' (c + dapps n st).
  Proof.
    induction n as [|n IH]; intros st st' c Hinv Hnt H; cbn [drun dapps dnotie_run] in *.
    - inversion H; subst. rewrite Nat.add_0_r. exact Hinv.
    - destruct Hnt as [Hnt0 Hnt]. destruct (dssa_iter ArithR pi2 gfuel s u st) as [st1| |w] eqn:E; try discriminate.
      rewrite Nat.add_assoc. apply IH; auto. apply dcount_step; auto.
  Qed.

  Lemma dloop_is_run fuel : forall st st', dssa_loop ArithR pi2 fuel gfuel s u st = Done st' ->
    exists n, drun n st = Done st' /\ ds_todo st' = [].
  Proof.
    induction fuel as [|fuel IH]; intros st st' H; simpl in H.
    - destruct (ds_todo st) eqn:E; [|discriminate]. inversion H; subst. exists 0%nat. simpl. split; auto.
    - destruct (ds_todo st) eqn:E; [inversion H; subst; exists 0%nat; simpl; split; auto|].
      destruct (dssa_iter ArithR pi2 gfuel s u st) as [st1| |w] eqn:Ei; try discriminate.
      destruct (IH st1 st' H) as (n & Hr & Ht). exists (S n). cbn [drun]. rewrite Ei. split; auto.
  Qed.

  Definition dinit (q : queue R R) (ts : list R) (pos : nat) : dssa_state (F:=R) :=
    mkDssa (sm_t0 s) ts (sm_x0 s) (si_params (sm_if s)) true pos [] (q_set_time ArithR q (sm_t0 s)).

  (* whole run: at the end as many rows as requested times; at every iteration boundary of a run without ties the number
     of applications so far is the number of rows so far, plus one exactly when the application for the row to come has
     already been made (rule_step cleared) *)
  Theorem delay_dt_rules_once_per_row q ts fuel pos st : StronglySorted Rlt ts -> Forall (fun t => sm_t0 s <= t) ts ->
    dssa_simulate ArithR pi2 fuel gfuel s q ts u pos = Done st ->
    exists n, drun n (dinit q ts pos) = Done st /\
      (dnotie_run n (dinit q ts pos) ->
         length (ds_rows st) = length ts /\
         forall m stm, (m <= n)%nat -> drun m (dinit q ts pos) = Done stm ->
           dapps m (dinit q ts pos) = (length (ds_rows stm) + (if ds_rule_step stm then 0 else 1))%nat).
  Proof.
    intros Hs H0 H. unfold dssa_simulate in H. fold (dinit q ts pos) in H.
    destruct (dloop_is_run fuel _ _ H) as (n & Hr & Ht).
    exists n. split; [exact Hr|]. intros Hnt.
    assert (Hinit : dcount_inv (length ts) (dinit q ts pos) 0).
    { unfold dinit. constructor; cbn; auto. intros t r E. subst ts. inversion H0; auto. }
    assert (Hpre : forall m stm, (m <= n)%nat -> drun m (dinit q ts pos) = Done stm ->
                    dcount_inv (length ts) stm (dapps m (dinit q ts pos))).
    { intros m stm Hm Hrm. apply (dcount_prefix (length ts) m _ _ 0%nat Hinit); auto.
      clear -Hnt Hm Hr. revert n Hm Hnt Hr. generalize (dinit q ts pos).
      induction m as [|m IH]; intros st0 n Hm Hnt Hr; [exact I|].
      destruct n as [|n]; [lia|]. cbn [dnotie_run drun] in *. destruct Hnt as [H1 H2]. split; auto.
      destruct (dssa_iter ArithR pi2 gfuel s u st0) as [st1| |w]; auto. apply (IH st1 n); auto. lia. }
    pose proof (Hpre n st (le_n n) Hr) as [_ Htot _ _].
    rewrite Ht in Htot. cbn [length] in Htot. rewrite Nat.add_0_r in Htot.
    split; [exact Htot|].
    intros m stm Hm Hrm. apply (dn_count _ _ _ (Hpre m stm Hm Hrm)).
  Qed.
End DCount.
