(* C19, in observable terms (reals, no rules on species): in a simulated lineage the FIRST reported rows of the two daughters of a
   cell are a partition of that cell's LAST reported row -- perfect and binomial species sum to it, the others are copied --
   whenever the cell's last reported time is one of the requested times. *)
From Coq Require Import ZArith Reals List Bool Lia Lra Arith Sorted.
From BS Require Import Base.Arith Model.Term Model.Propensity Model.Interface Model.Rules Model.Random Model.Queue Model.SSA Model.Splitters Model.Lineage Model.Worklist
  Proofs.ListLemmas Proofs.SSAProofs Proofs.VolumeRun Proofs.SplitProofs Proofs.WorklistProofs Proofs.WorklistProvenance Proofs.PairProvenance Proofs.LineageFirstRow.
Import ListNotations.
Local Open Scope R_scope.

Lemma truncate_at_member (ts : list R) v : StronglySorted Rlt ts -> In v ts ->
  exists rest, truncate_lt ArithR ts v = v :: rest /\ StronglySorted Rlt (v :: rest).
Proof.
  induction ts as [|t ts IH]; intros Hs Hin; [destruct Hin|].
  inversion Hs as [|? ? Hs' Hall]; subst. cbn [truncate_lt]. change (fleb ArithR v t) with (Rleb v t).
  destruct Hin as [->|Hin].
  - replace (Rleb v v) with true by (symmetry; apply Rleb_true; lra). exists ts. split; [reflexivity|exact Hs].
  - rewrite Forall_forall in Hall. specialize (Hall v Hin).
    replace (Rleb v t) with false by (symmetry; apply Rleb_false; exact Hall). apply IH; auto.
Qed.

Lemma sorted_head_le_last (t : R) (l : list R) : StronglySorted Rlt (t :: l) -> t <= last (t :: l) t.
Proof.
  intros Hs. inversion Hs as [|? ? _ Hall]; subst. destruct l as [|a l]; [simpl; lra|].
  assert (Hin : In (last (t :: a :: l) t) (a :: l)).
  { change (last (t :: a :: l) t) with (last (a :: l) t). clear. revert a. induction l as [|b l IH]; intros a; [left; reflexivity|].
    right. apply (IH b). }
  rewrite Forall_forall in Hall. left. apply Hall. exact Hin.
Qed.

Section Conservation.
  Variable l : lin R.
  Variables pi2 eps9 eps7 eps12 : R.
  Variable u : nat -> R.
  Hypothesis no_rules : sm_rules (ln_sim l) = [].
  Hypothesis Hu : forall n, 0 < u n <= 1.
  Hypothesis Hprops : forall x p V t, 0 <= array_sum ArithR (lin_props ArithR l x p V t).

  (* a cell simulated on a sorted grid that starts at its own time (and birth time) reports the state it was handed first *)
  Lemma cell_first_row fuel t rest (d : cellstate R) pos st : StronglySorted Rlt (t :: rest) -> cs_time d = t -> cs_t0 d = t ->
    cell_simulate ArithR pi2 eps9 eps7 fuel l (t :: rest) d u pos = Done st -> exists r, ls_rows st = cs_x d :: r.
  Proof.
    intros Hs Ht Ht0 H. unfold cell_simulate in H. destruct rest as [|t1 ts''].
    - rewrite Ht0 in H. change (fleb ArithR t t) with (Rleb t t) in H. replace (Rleb t t) with true in H by (symmetry; apply Rleb_true; lra).
      inversion H; subst st. cbn. eexists. reflexivity.
    - rewrite Ht in H.
      apply (first_row_is_birth_state l pi2 eps9 eps7 u no_rules Hu Hprops fuel t t1 ts'' (cs_t0 d) (cs_V d) (cs_V0 d) (cs_x d) pos st); auto.
      + inversion Hs as [|? ? _ Hall]; subst. inversion Hall; subst. lra.
      + apply sorted_head_le_last. exact Hs.
  Qed.

  Theorem lineage_rows_conserved cfuel fuel sps ts cells pos w : StronglySorted Rlt ts ->
    simulate_lineage ArithR pi2 eps9 eps7 eps12 cfuel fuel l sps ts cells u pos = Done w ->
    forall p m a b, nth_error (w_lineage w) p = Some m -> sz_daughters m = Some (a, b) ->
    exists tts0 st0 sp sa sb,
      data_of m tts0 st0 /\ nth_error (w_lineage w) a = Some sa /\ nth_error (w_lineage w) b = Some sb /\
      let c := final_cell ArithR tts0 st0 in
      nth_error sps (Z.to_nat (cs_divided c)) = Some sp /\
      (In (cs_time c) ts -> NoDup (sp_perfect sp ++ sp_binomial sp) -> (forall i, In i (sp_perfect sp ++ sp_binomial sp) -> (i < length (cs_x c))%nat) ->
       exists xa ra xb rb, sz_rows sa = xa :: ra /\ sz_rows sb = xb :: rb /\
         (forall i, In i (sp_perfect sp ++ sp_binomial sp) -> gR xa i + gR xb i = gR (cs_x c) i) /\
         (forall i, (i < length (cs_x c))%nat -> ~ In i (sp_perfect sp ++ sp_binomial sp) -> gR xa i = gR (cs_x c) i /\ gR xb i = gR (cs_x c) i)).
  Proof.
    intros Hs H p m a b Hp Hd.
    destruct (lineage_pairs_born ArithR pi2 eps9 eps7 eps12 cfuel fuel l sps ts cells u pos w H p m a b Hp Hd)
      as (tts0 & st0 & sp & upos & pos1 & pos2 & st1 & st2 & sa & sb & Dm & _ & Hsp & Ha & Hb & H1 & H2 & (_ & Ra & _) & (_ & Rb & _)).
    exists tts0, st0, sp, sa, sb. split; [exact Dm|]. split; [exact Ha|]. split; [exact Hb|]. cbv zeta. split; [exact Hsp|].
    intros Hin Hnd Hlt.
    destruct (truncate_at_member ts _ Hs Hin) as (rest & Etr & Hsr). rewrite Etr in H1, H2.
    set (c := final_cell ArithR tts0 st0) in *.
    destruct (cell_first_row fuel (cs_time c) rest (fst (daughter_cells ArithR c sp u upos)) pos1 st1 Hsr eq_refl eq_refl H1) as (r1 & E1).
    destruct (cell_first_row fuel (cs_time c) rest (snd (daughter_cells ArithR c sp u upos)) pos2 st2 Hsr eq_refl eq_refl H2) as (r2 & E2).
    unfold daughter_cells in E1, E2. cbn [fst snd cs_x] in E1, E2.
    eexists _, r1, _, r2. split; [rewrite Ra; exact E1|]. split; [rewrite Rb; exact E2|].
    destruct (lineage_conserves (sp_vmode sp) (sp_perfect sp) (sp_binomial sp) (sp_noise sp) (cs_x c) (cs_V c) u upos Hnd Hlt) as (C1 & C2 & _).
    split; [exact C1|exact C2].
  Qed.
End Conservation.
