(* C17: a record saved as the tuple of its __getstate__ fields and restored by index assignments
   agrees with the original on every saved field when the two hand-maintained layouts match;
   each rebuilt C vector is the image of the list it is rebuilt from. *)
From Coq Require Import String List Bool Arith Lia.
Import ListNotations.
Open Scope string_scope.

Section Generic.
  Variable V : Type.
  Variable dflt : V.
  Definition record := string -> V.

  Definition save (m : record) (get : list string) : list V := map m get.
  Fixpoint lookup (f : string) (set : list (string * nat)) : option nat :=
    match set with [] => None | (g, i) :: r => if String.eqb g f then Some i else lookup f r end.
  (* fields that __setstate__ does not assign keep the value of a freshly constructed object *)
  Definition restore (fresh : record) (t : list V) (set : list (string * nat)) : record :=
    fun f => match lookup f set with Some i => nth i t dflt | None => fresh f end.

  Fixpoint nodupb (l : list string) : bool :=
    match l with [] => true | a :: r => negb (existsb (String.eqb a) r) && nodupb r end.
  Fixpoint list_eqb (a b : list string) : bool :=
    match a, b with [] , [] => true | x :: a', y :: b' => String.eqb x y && list_eqb a' b' | _, _ => false end.
  Fixpoint nat_list_eqb (a b : list nat) : bool :=
    match a, b with [] , [] => true | x :: a', y :: b' => Nat.eqb x y && nat_list_eqb a' b' | _, _ => false end.

  (* same fields, same order, indices 0, 1, 2, ... : none repeated, none skipped *)
  Definition layout_ok (get : list string) (set : list (string * nat)) : bool :=
    list_eqb (map fst set) get && nat_list_eqb (map snd set) (seq 0 (length get)) && nodupb get.

  Lemma list_eqb_eq a : forall b, list_eqb a b = true -> a = b.
  Proof. induction a as [|x a IH]; intros [|y b] H; simpl in H; try discriminate; auto.
    apply andb_true_iff in H. destruct H as [H1 H2]. apply String.eqb_eq in H1. subst. f_equal. auto. Qed.
  Lemma nat_list_eqb_eq a : forall b, nat_list_eqb a b = true -> a = b.
  Proof. induction a as [|x a IH]; intros [|y b] H; simpl in H; try discriminate; auto.
    apply andb_true_iff in H. destruct H as [H1 H2]. apply Nat.eqb_eq in H1. subst. f_equal. auto. Qed.

  Lemma lookup_zip (fs : list string) : forall k f i, nodupb fs = true -> nth_error fs i = Some f ->
    lookup f (combine fs (seq k (length fs))) = Some (k + i).
  Proof.
    induction fs as [|g fs IH]; intros k f i Hnd Hi; [destruct i; discriminate|].
    simpl in Hnd. apply andb_true_iff in Hnd. destruct Hnd as [Hng Hnd].
    destruct i as [|i]; simpl in *.
    - inversion Hi; subst. rewrite String.eqb_refl. f_equal. lia.
    - destruct (String.eqb_spec g f) as [->|Hne].
      + exfalso. apply negb_true_iff in Hng. assert (existsb (String.eqb f) fs = true).
        { apply existsb_exists. exists f. split; [eapply nth_error_In; eauto|apply String.eqb_refl]. }
        congruence.
      + rewrite (IH (S k) f i Hnd Hi). f_equal. lia.
  Qed.

  Theorem roundtrip get set fresh (m : record) : layout_ok get set = true ->
    forall f, In f get -> restore fresh (save m get) set f = m f.
  Proof.
    unfold layout_ok. intros H f Hin. apply andb_true_iff in H. destruct H as [H Hnd].
    apply andb_true_iff in H. destruct H as [H1 H2]. apply list_eqb_eq in H1. apply nat_list_eqb_eq in H2.
    assert (Hset : set = combine get (seq 0 (length get))).
    { rewrite <- H2, <- H1. clear. induction set as [|[g i] set IH]; simpl; auto. f_equal. exact IH. }
    apply In_nth_error in Hin. destruct Hin as [i Hi].
    unfold restore. rewrite Hset, (lookup_zip get 0 f i Hnd Hi). simpl.
    unfold save. rewrite (nth_indep _ dflt (m f)).
    - change (m f) with ((fun g => m g) f). rewrite map_nth. f_equal.
      apply nth_error_nth with (d := f) in Hi. exact Hi.
    - rewrite map_length. apply nth_error_Some. congruence.
  Qed.

  (* every rebuilt vector index points at a list field that is saved *)
  Definition rebuilt_ok (get : list string) (reb : list (string * nat)) : bool :=
    forallb (fun p => Nat.ltb (snd p) (length get)) reb.
  (* nothing declared is forgotten: every declared attribute is saved, rebuilt, or listed as derived *)
  Definition declared_ok (decl get : list string) (reb : list (string * nat)) (derived : list string) : bool :=
    forallb (fun d => existsb (String.eqb d) get || existsb (String.eqb d) (map fst reb) || existsb (String.eqb d) derived) decl.
End Generic.
