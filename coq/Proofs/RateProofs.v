(* C01: the propensity model at ArithR equals the documented closed forms. *)
From Coq Require Import ZArith Reals List Arith Lra Lia Permutation Bool.
From BS Require Import Base.Arith Model.Term Model.Propensity Spec.RateLaws.
Import ListNotations.
Local Open Scope R_scope.

Lemma getv_rget x i : getv ArithR x i = rget x i.
Proof. reflexivity. Qed.

Ltac norm_getv := repeat match goal with |- context [getv ArithR ?a ?b] => change (getv ArithR a b) with (rget a b) end.

Lemma pymax_Rmax a b : pymax ArithR a b = Rmax a b.
Proof.
  unfold pymax, Rmax; simpl. unfold Rltb.
  destruct (Rlt_dec a b), (Rle_dec a b); try reflexivity; lra.
Qed.

Lemma ofnat_INR n : ofnat ArithR n = INR n.
Proof. unfold ofnat; simpl. symmetry. apply INR_IZR_INZ. Qed.

Lemma fold_left_ext' {X Y} (f g : X -> Y -> X) l : (forall a b, f a b = g a b) -> forall a0, fold_left f l a0 = fold_left g l a0.
Proof. intros H. induction l as [|b l IH]; intros a0; simpl; auto. rewrite H. apply IH. Qed.

Lemma prodl_app l1 l2 : prodl (l1 ++ l2) = prodl l1 * prodl l2.
Proof. induction l1 as [|a l IH]; simpl; [lra|]. rewrite IH. lra. Qed.

Lemma prodl_perm l1 l2 : Permutation l1 l2 -> prodl l1 = prodl l2.
Proof. induction 1; simpl; try lra. rewrite IHPermutation. reflexivity. Qed.

(* ---- inner and outer loops of mass action ---- *)
Lemma inner_det v c : forall s a0, fold_left (fun a (_ : nat) => a * v) (seq s c) a0 = a0 * v ^ c.
Proof. induction c as [|c IH]; intros s a0; simpl; [lra|]. rewrite IH. lra. Qed.

Lemma inner_stoch v c : forall a0,
  fold_left (fun a j => a * Rmax (v - INR j) 0) (seq 0 c) a0 = a0 * ff v c.
Proof.
  induction c as [|c IH]; intros a0; [simpl; lra|].
  rewrite seq_S, fold_left_app, IH. simpl. lra.
Qed.

Definition tdet (x : list R) (l : list (nat * nat)) : R := prodl (map (fun ic => rget x (fst ic) ^ snd ic) l).
Definition tsto (x : list R) (l : list (nat * nat)) : R := prodl (map (fun ic => ff (rget x (fst ic)) (snd ic)) l).

Lemma mass_det_tdet k inds counts x :
  mass_det ArithR k inds counts x = k * tdet x (combine inds counts).
Proof.
  unfold mass_det, tdet. generalize (combine inds counts) as l. intros l. revert k.
  induction l as [|[i c] l IH]; intros k; simpl; [lra|].
  rewrite IH. change (fmul ArithR) with Rmult. rewrite (inner_det (getv ArithR x i) c 0 k).
  rewrite getv_rget. lra.
Qed.

Lemma mass_stoch_tsto k inds counts x :
  mass_stoch ArithR k inds counts x = k * tsto x (combine inds counts).
Proof.
  unfold mass_stoch, tsto. generalize (combine inds counts) as l. intros l. revert k.
  induction l as [|[i c] l IH]; intros k; simpl; [lra|].
  rewrite IH.
  assert (E : forall a0, fold_left (fun a j => fmul ArithR a (pymax ArithR (fsub ArithR (getv ArithR x i) (ofnat ArithR j)) (fofZ ArithR 0)))
                   (seq 0 c) a0 = a0 * ff (rget x i) c).
  { intros a0. rewrite <- inner_stoch. apply fold_left_ext'. intros a b.
    rewrite pymax_Rmax, ofnat_INR. reflexivity. }
  rewrite E. lra.
Qed.

(* ---- the multiplicity table built by MassActionPropensity.initialize ---- *)
Definition incr_at (s : nat) (inds counts : list nat) : list nat :=
  map (fun ic => if Nat.eqb (fst ic) s then S (snd ic) else snd ic) (combine inds counts).

Lemma bump_spec inds : forall counts s, length inds = length counts -> NoDup inds ->
  bump inds counts s =
    if in_dec Nat.eq_dec s inds then (inds, incr_at s inds counts) else (inds ++ [s], counts ++ [1%nat]).
Proof.
  induction inds as [|i inds IH]; intros [|c counts] s Hl Hnd; simpl in Hl; try discriminate.
  - simpl. reflexivity.
  - inversion Hnd as [|? ? Hni Hnd']; subst. simpl bump.
    destruct (Nat.eqb_spec i s) as [->|Hne].
    + destruct (in_dec Nat.eq_dec s (s :: inds)) as [_|Hn]; [|exfalso; apply Hn; left; auto].
      unfold incr_at. simpl. rewrite Nat.eqb_refl. f_equal. f_equal.
      (* the remaining entries are untouched because s is not among them *)
      clear IH Hnd Hnd'. revert counts Hl Hni. induction inds as [|j inds IHi]; intros [|d counts] Hl Hni; simpl in *; auto; try discriminate.
      destruct (Nat.eqb_spec j s) as [->|]; [exfalso; apply Hni; left; auto|].
      f_equal. apply IHi; [lia|]. intros H; apply Hni; right; auto.
    + rewrite IH by (auto; lia).
      destruct (in_dec Nat.eq_dec s inds) as [Hin|Hnin];
      destruct (in_dec Nat.eq_dec s (i :: inds)) as [Hin'|Hnin'].
      * unfold incr_at. simpl. destruct (Nat.eqb_spec i s); [contradiction|]. reflexivity.
      * exfalso; apply Hnin'; right; auto.
      * exfalso. destruct Hin'; [contradiction|contradiction].
      * reflexivity.
Qed.

Definition table_inv (done : list nat) (T : list nat * list nat) : Prop :=
  NoDup (fst T) /\ (forall s, In s (fst T) <-> In s done) /\
  snd T = map (count_occ Nat.eq_dec done) (fst T).

Lemma count_occ_snoc l s i :
  count_occ Nat.eq_dec (l ++ [s]) i = (count_occ Nat.eq_dec l i + if Nat.eqb s i then 1 else 0)%nat.
Proof.
  rewrite count_occ_app. simpl. destruct (Nat.eq_dec s i) as [->|Hne].
  - rewrite Nat.eqb_refl. reflexivity.
  - destruct (Nat.eqb_spec s i); [contradiction|]. reflexivity.
Qed.

Lemma table_step done T s : table_inv done T -> table_inv (done ++ [s]) (bump (fst T) (snd T) s).
Proof.
  destruct T as [inds counts]. intros (Hnd & Hin & Hc). simpl in *.
  assert (Hl : length inds = length counts) by (rewrite Hc, map_length; reflexivity).
  rewrite bump_spec by auto.
  destruct (in_dec Nat.eq_dec s inds) as [Hs|Hs]; unfold table_inv; simpl.
  - split; [auto|]. split.
    + intros s'. rewrite in_app_iff. rewrite Hin. simpl. split; [auto|].
      intros [H|[<-|[]]]; auto. apply Hin; auto.
    + unfold incr_at. rewrite Hc. clear Hl Hc Hs Hin Hnd.
      induction inds as [|i inds IH]; simpl; auto. rewrite IH. f_equal.
      rewrite count_occ_snoc. rewrite (Nat.eqb_sym i s). destruct (Nat.eqb s i); lia.
  - split; [|split].
    + apply Permutation_NoDup with (l := s :: inds); [|constructor; auto].
      apply Permutation_cons_append.
    + intros s'. rewrite !in_app_iff. rewrite Hin. reflexivity.
    + rewrite map_app. simpl. rewrite count_occ_snoc, Nat.eqb_refl.
      assert (Hz : count_occ Nat.eq_dec done s = 0%nat).
      { apply count_occ_not_In. intros H. apply Hs. apply Hin. exact H. }
      rewrite Hz. f_equal. rewrite Hc. apply map_ext_in. intros i Hi.
      rewrite count_occ_snoc. destruct (Nat.eqb_spec s i) as [->|]; [contradiction|]. lia.
Qed.

Lemma table_spec rs : table_inv rs (multiplicity_table rs).
Proof.
  unfold multiplicity_table.
  assert (G : forall done T, table_inv done T ->
              table_inv (done ++ rs) (fold_left (fun ic s => bump (fst ic) (snd ic) s) rs T)).
  { induction rs as [|s rs IH]; intros done T HT; simpl.
    - rewrite app_nil_r. exact HT.
    - replace (done ++ s :: rs) with ((done ++ [s]) ++ rs) by (rewrite <- app_assoc; reflexivity).
      apply IH. apply table_step. exact HT. }
  apply (G [] ([], [])). unfold table_inv; simpl. split; [constructor|]. split; [tauto|reflexivity].
Qed.

Lemma combine_map_self {X Y} (f : X -> Y) l : combine l (map f l) = map (fun a => (a, f a)) l.
Proof. induction l as [|a l IH]; simpl; auto. rewrite IH. reflexivity. Qed.

Lemma prodl_map_mul {X} (f g : X -> R) l : prodl (map (fun a => f a * g a) l) = prodl (map f l) * prodl (map g l).
Proof. induction l as [|a l IH]; simpl; [lra|]. rewrite IH. lra. Qed.

Lemma prodl_indicator (x : list R) a l : NoDup l -> In a l ->
  prodl (map (fun s => rget x s ^ (if Nat.eqb a s then 1 else 0)) l) = rget x a.
Proof.
  induction l as [|b l IH]; intros Hnd Hin; [contradiction|]. inversion Hnd; subst. simpl.
  destruct (Nat.eqb_spec a b) as [->|Hne].
  - assert (E : prodl (map (fun s => rget x s ^ (if Nat.eqb b s then 1 else 0)) l) = 1).
    { clear IH Hnd Hin H2. induction l as [|c l IHl]; simpl; auto.
      destruct (Nat.eqb_spec b c) as [->|]; [exfalso; apply H1; left; auto|].
      rewrite IHl; [simpl; lra|]. intros H; apply H1; right; auto. }
    rewrite E. simpl. lra.
  - destruct Hin as [->|Hin]; [congruence|]. rewrite IH by auto. simpl. lra.
Qed.

(* product over the reactant list, regrouped by distinct species *)
Lemma prodl_regroup x rs : forall l, NoDup l -> (forall s, In s rs -> In s l) ->
  prodl (map (rget x) rs) = prodl (map (fun s => rget x s ^ count_occ Nat.eq_dec rs s) l).
Proof.
  induction rs as [|a rs IH]; intros l Hnd Hsub.
  - simpl. induction l as [|b l IHl]; simpl; auto. inversion Hnd; subst. rewrite <- IHl; auto; [lra|intros ? []].
  - simpl prodl at 1. rewrite (IH l Hnd) by (intros; apply Hsub; right; auto).
    rewrite <- (prodl_indicator x a l Hnd) at 1 by (apply Hsub; left; auto).
    rewrite <- prodl_map_mul. f_equal. apply map_ext. intros s. simpl.
    destruct (Nat.eq_dec a s) as [->|Hne].
    + rewrite Nat.eqb_refl. simpl. lra.
    + destruct (Nat.eqb_spec a s); [contradiction|]. simpl. lra.
Qed.

Lemma tdet_table x rs :
  tdet x (combine (fst (multiplicity_table rs)) (snd (multiplicity_table rs))) = prodl (map (rget x) rs).
Proof.
  destruct (table_spec rs) as (Hnd & Hin & Hc). rewrite Hc, combine_map_self.
  unfold tdet. rewrite map_map. simpl.
  symmetry. apply prodl_regroup; auto. intros s Hs. apply Hin. exact Hs.
Qed.

Lemma tsto_table x rs :
  tsto x (combine (fst (multiplicity_table rs)) (snd (multiplicity_table rs))) =
  prodl (map (fun s => ff (rget x s) (count_occ Nat.eq_dec rs s)) (nodup Nat.eq_dec rs)).
Proof.
  destruct (table_spec rs) as (Hnd & Hin & Hc). rewrite Hc, combine_map_self.
  unfold tsto. rewrite map_map. simpl.
  apply prodl_perm. apply Permutation_map. apply NoDup_Permutation; auto.
  - apply NoDup_nodup.
  - intros s. rewrite nodup_In. apply Hin.
Qed.

(* falling factorial facts *)
Lemma ff_zero (n m : nat) : (n < m)%nat -> ff (INR n) m = 0.
Proof.
  induction m as [|m IH]; intros H; [lia|]. simpl.
  destruct (Nat.eq_dec n m) as [->|Hne].
  - replace (INR m - INR m) with 0 by lra. rewrite Rmax_left by lra. lra.
  - rewrite IH by lia. lra.
Qed.

Lemma ff_factorial (n m : nat) : (m <= n)%nat -> ff (INR n) m * INR (fact (n - m)) = INR (fact n).
Proof.
  induction m as [|m IH]; intros H.
  - simpl. rewrite Nat.sub_0_r. lra.
  - simpl. rewrite Rmax_left by (apply Rle_ge_0_minus || (apply Rge_le, Rge_minus, Rle_ge, le_INR; lia)).
    replace (n - m)%nat with (S (n - S m)) in IH by lia. simpl fact in IH.
    rewrite plus_INR, mult_INR in IH. rewrite <- IH by lia.
    replace (INR n - INR m) with (INR (S (n - S m))) by (rewrite <- minus_INR by lia; f_equal; lia).
    rewrite S_INR. lra.
Qed.

(* ---- volume factor ---- *)
Lemma fold_add_list_sum l : forall a, fold_left Nat.add l a = (a + list_sum l)%nat.
Proof. induction l as [|b l IH]; intros a; simpl; [lia|]. rewrite IH. lia. Qed.

Lemma sum_counts rs : forall l, NoDup l -> (forall s, In s rs -> In s l) ->
  list_sum (map (count_occ Nat.eq_dec rs) l) = length rs.
Proof.
  induction rs as [|a rs IH]; intros l Hnd Hsub.
  - simpl. induction l as [|b l IHl]; simpl; auto. inversion Hnd; subst. apply IHl; auto. intros ? [].
  - simpl length. rewrite <- (IH l Hnd) by (intros; apply Hsub; right; auto).
    assert (Hin : In a l) by (apply Hsub; left; auto).
    clear IH Hsub. induction l as [|b l IHl]; [contradiction|]. inversion Hnd; subst.
    cbn [map].
    assert (LS : forall a0 l0, list_sum (a0 :: l0) = (a0 + list_sum l0)%nat) by reflexivity. rewrite !LS.
    destruct (Nat.eq_dec a b) as [->|Hne].
    + rewrite count_occ_cons_eq by reflexivity.
      assert (E : map (count_occ Nat.eq_dec (b :: rs)) l = map (count_occ Nat.eq_dec rs) l).
      { apply map_ext_in. intros c Hc. apply count_occ_cons_neq. intros ->. contradiction. }
      rewrite E. lia.
    + rewrite count_occ_cons_neq by auto.
      destruct Hin as [->|Hin]; [congruence|]. rewrite IHl by auto. lia.
Qed.

Lemma num_species_table rs :
  num_species (snd (multiplicity_table rs)) = Z.of_nat (length rs).
Proof.
  destruct (table_spec rs) as (Hnd & Hin & Hc). unfold num_species. rewrite Hc.
  rewrite fold_add_list_sum. simpl. f_equal. apply sum_counts; auto. intros s Hs; apply Hin; auto.
Qed.

Lemma rpow_pos_nat V (n : nat) : 0 < V -> rpow V (IZR (Z.of_nat (S n) - 1)) = V ^ n.
Proof.
  intros HV. unfold rpow. destruct (Req_EM_T V 0); [lra|].
  replace (Z.of_nat (S n) - 1)%Z with (Z.of_nat n) by lia. rewrite <- INR_IZR_INZ.
  apply Rpower_pow. exact HV.
Qed.

Lemma vol_div_spec v V rs : 0 < V -> rs <> [] ->
  vol_div ArithR v V (snd (multiplicity_table rs)) = v * vol_factor V (length rs).
Proof.
  intros HV Hne. unfold vol_div. rewrite num_species_table. simpl.
  destruct rs as [|a rs]; [congruence|]. simpl length. rewrite rpow_pos_nat by auto.
  simpl vol_factor. unfold Rdiv. reflexivity.
Qed.

Definition nonneg (x : list R) : Prop := Forall (fun v => 0 <= v) x.
Lemma rget_nonneg x i : nonneg x -> 0 <= rget x i.
Proof.
  intros H. unfold rget. destruct (Nat.ltb_spec i (length x)).
  - unfold nonneg in H. rewrite Forall_forall in H. apply H. apply nth_In. auto.
  - rewrite nth_overflow by auto. lra.
Qed.

(* ---- C01, mass action: all four modes, every reactant list ---- *)
Lemma general_mass k rs x p V t : 0 < V -> rs <> [] ->
  let T := multiplicity_table rs in
  prop_eval ArithR (PMass k (fst T) (snd T)) Det x p V t = ma_det (rget p k) rs x /\
  prop_eval ArithR (PMass k (fst T) (snd T)) Vol x p V t = ma_det (rget p k) rs x * vol_factor V (length rs) /\
  prop_eval ArithR (PMass k (fst T) (snd T)) Stoch x p V t = ma_stoch (rget p k) rs x /\
  prop_eval ArithR (PMass k (fst T) (snd T)) StochVol x p V t = ma_stoch (rget p k) rs x * vol_factor V (length rs).
Proof.
  intros HV Hne T. cbn [prop_eval]. norm_getv.
  rewrite mass_det_tdet, mass_stoch_tsto. unfold T. rewrite tdet_table, tsto_table.
  rewrite !vol_div_spec by auto. unfold ma_det, ma_stoch. repeat split; reflexivity.
Qed.

Lemma rpow_zero_exp V : 0 < V -> rpow V 0 = 1.
Proof. intros H. unfold rpow. destruct (Req_EM_T V 0); [lra|]. apply Rpower_O. exact H. Qed.
Lemma rpow_one_exp V : 0 < V -> rpow V 1 = V.
Proof. intros H. unfold rpow. destruct (Req_EM_T V 0); [lra|]. apply Rpower_1. exact H. Qed.

Theorem massaction_closed_forms k rs x p V t : nonneg x -> 0 < V ->
  prop_eval ArithR (massaction_dispatch k rs) Det x p V t = ma_det (rget p k) rs x /\
  prop_eval ArithR (massaction_dispatch k rs) Vol x p V t = ma_det (rget p k) rs x * vol_factor V (length rs) /\
  prop_eval ArithR (massaction_dispatch k rs) Stoch x p V t = ma_stoch (rget p k) rs x /\
  prop_eval ArithR (massaction_dispatch k rs) StochVol x p V t = ma_stoch (rget p k) rs x * vol_factor V (length rs).
Proof.
  intros Hx HV.
  destruct rs as [|s1 [|s2 [|s3 rs]]].
  - (* order 0 *) unfold massaction_dispatch, ma_det, ma_stoch. simpl. norm_getv. repeat split; lra.
  - (* order 1: the unimolecular class computes what the general class would *)
    destruct (general_mass k [s1] x p V t HV ltac:(discriminate)) as (G1 & G2 & G3 & G4).
    rewrite <- G2, <- G4, <- G1, <- G3. clear G1 G2 G3 G4.
    unfold massaction_dispatch. cbn [multiplicity_table fold_left bump fst snd prop_eval].
    unfold mass_det, mass_stoch, vol_div, num_species. cbn [combine fold_left seq fst snd Nat.add].
    norm_getv. pose proof (rget_nonneg x s1 Hx) as H1.
    change (fmul ArithR) with Rmult. change (fdiv ArithR) with Rdiv. change (fsub ArithR) with Rminus.
    rewrite pymax_Rmax, ofnat_INR. change (fpow ArithR) with rpow. simpl (fofZ ArithR _). simpl INR.
    rewrite rpow_zero_exp by auto. rewrite Rminus_0_r, Rmax_left by lra. repeat split; field.
  - (* order 2: the bimolecular class *)
    destruct (general_mass k [s1; s2] x p V t HV ltac:(discriminate)) as (G1 & G2 & G3 & G4).
    rewrite <- G2, <- G4, <- G1, <- G3. clear G1 G2 G3 G4.
    unfold massaction_dispatch. cbn [multiplicity_table fold_left bump fst snd prop_eval].
    pose proof (rget_nonneg x s1 Hx) as H1. pose proof (rget_nonneg x s2 Hx) as H2.
    destruct (Nat.eqb_spec s1 s2) as [->|Hne]; cbn [fst snd];
      unfold mass_det, mass_stoch, vol_div, num_species; cbn [combine fold_left seq fst snd Nat.add];
      norm_getv; change (fmul ArithR) with Rmult; change (fdiv ArithR) with Rdiv; change (fsub ArithR) with Rminus;
      rewrite ?pymax_Rmax, ?ofnat_INR; change (fpow ArithR) with rpow; simpl (fofZ ArithR _); simpl INR;
      rewrite rpow_one_exp by auto; rewrite ?Rminus_0_r, ?(Rmax_left (rget x s1) 0), ?(Rmax_left (rget x s2) 0) by lra;
      repeat split; field; lra.
  - (* order >= 3: the general class with its multiplicity table *)
    set (rs0 := s1 :: s2 :: s3 :: rs).
    unfold massaction_dispatch. fold rs0.
    destruct (multiplicity_table rs0) as [inds counts] eqn:ET.
    replace inds with (fst (multiplicity_table rs0)) by (rewrite ET; reflexivity).
    replace counts with (snd (multiplicity_table rs0)) by (rewrite ET; reflexivity).
    apply general_mass; auto. discriminate.
Qed.


(* "zero when fewer than m copies are present" at the level of the whole rate *)
Lemma prodl_zero l : In 0 l -> prodl l = 0.
Proof. induction l as [|a l IH]; intros H; [destruct H|]. destruct H as [->|H]; simpl; [lra|]. rewrite IH by auto. lra. Qed.

Theorem massaction_stoch_zero_when_short k rs x s (n : nat) :
  In s rs -> rget x s = INR n -> (n < count_occ Nat.eq_dec rs s)%nat -> ma_stoch k rs x = 0.
Proof.
  intros Hin Hx Hlt. unfold ma_stoch. rewrite prodl_zero; [lra|].
  apply in_map_iff. exists s. split; [|apply nodup_In; auto]. rewrite Hx. apply ff_zero. exact Hlt.
Qed.

(* ---- C01, Hill family ---- *)
Theorem hill_closed_forms k K n s d x p V t :
  let X := rget x s in let D := rget x d in
  let kk := rget p k in let KK := rget p K in let nn := rget p n in
  0 < V -> 1 + rpow (X / KK) nn <> 0 -> 1 + rpow (X / V / KK) nn <> 0 ->
  (forall m, (m = Det \/ m = Stoch) ->
     prop_eval ArithR (PHillPos k K n s) m x p V t = hill_pos kk KK nn X /\
     prop_eval ArithR (PHillNeg k K n s) m x p V t = hill_neg kk KK nn X /\
     prop_eval ArithR (PPropHillPos k K n s d) m x p V t = D * hill_pos kk KK nn X /\
     prop_eval ArithR (PPropHillNeg k K n s d) m x p V t = D * hill_neg kk KK nn X) /\
  (forall m, (m = Vol \/ m = StochVol) ->
     prop_eval ArithR (PHillPos k K n s) m x p V t = hill_pos kk KK nn (X / V) /\
     prop_eval ArithR (PHillNeg k K n s) m x p V t = hill_neg kk KK nn (X / V) /\
     prop_eval ArithR (PPropHillPos k K n s d) m x p V t = D * hill_pos kk KK nn (X / V) /\
     prop_eval ArithR (PPropHillNeg k K n s d) m x p V t = D * hill_neg kk KK nn (X / V)).
Proof.
  intros X D kk KK nn HV H1 H2. unfold hill_pos, hill_neg.
  split; intros m [-> | ->]; cbn [prop_eval]; unfold hill_pow; norm_getv;
    change (fmul ArithR) with Rmult; change (fdiv ArithR) with Rdiv; change (fadd ArithR) with Rplus;
    change (fpow ArithR) with rpow; simpl (fofZ ArithR _); fold X D kk KK nn;
    repeat split; field; assumption.
Qed.
