(* Tie between the methods of ArrayDelayQueue REGENERATED from bioscrape/simulator.pyx (Gen/QueueGen.v, written by
   tools/tr_queue.py on every run) and the hand model Model/Queue.v, for ANY arithmetic, through the abstraction function
   of the record of attributes (cells are doubles: amount monoid (F, fofZ 0, fadd)). *)
From Coq Require Import ZArith List Bool Arith Lia.
From BS Require Import Base.Arith Base.CyPrelude Model.Term Model.Queue Gen.QueueGen.
Import ListNotations.

Section Tie.
  Context {F : Type} (A : Arith F).
  Notation obj := (@ArrayDelayQueue_obj F).
  Notation z := (fofZ A 0%Z).

  Definition q_abs (o : obj) : queue F F :=
    mkQueue (ArrayDelayQueue_queue o) (ArrayDelayQueue_num_cols o) (ArrayDelayQueue_start_index o)
            (ArrayDelayQueue_next_queue_time o) (ArrayDelayQueue_dt o).
  (* the constructor's invariant: num_reactions = queue.shape[0] *)
  Definition wf_obj (o : obj) : Prop := ArrayDelayQueue_num_reactions o = length (ArrayDelayQueue_queue o).

  Lemma tie_set_current_time o t : q_abs (gen_ArrayDelayQueue_set_current_time A o t) = q_set_time A (q_abs o) t.
  Proof. reflexivity. Qed.
  Lemma wf_set_current_time o t : wf_obj o -> wf_obj (gen_ArrayDelayQueue_set_current_time A o t).
  Proof. exact (fun H => H). Qed.

  Lemma tie_get_next_queue_time o : gen_ArrayDelayQueue_get_next_queue_time A o = q_next_time (q_abs o).
  Proof. reflexivity. Qed.

  (* ---- add_reaction *)
  Lemma upd_overflow {T} (l : list T) i v : (length l <= i)%nat -> upd l i v = l.
  Proof. revert i; induction l as [|h t IH]; intros [|i] H; cbn in *; try reflexivity; try lia. f_equal. apply IH. lia. Qed.

  Lemma nth_error_Some_nth {T} (l : list T) i v d : nth_error l i = Some v -> nth i l d = v.
  Proof. revert i; induction l as [|h t IH]; intros [|i] H; cbn in *; try discriminate; [congruence|]. apply IH; exact H. Qed.

  Lemma slot_index o time :
    (0 < ArrayDelayQueue_num_cols o)%nat ->
    let i := q_raw_index A (q_abs o) time in
    Z.to_nat (((if (i <? 0)%Z then 0%Z else if (i >=? Z.of_nat (ArrayDelayQueue_num_cols o))%Z
                                          then (Z.of_nat (ArrayDelayQueue_num_cols o) - 1)%Z else i)
               + Z.of_nat (ArrayDelayQueue_start_index o)) mod Z.of_nat (ArrayDelayQueue_num_cols o))%Z
    = q_slot (q_abs o) (q_offset A (q_abs o) time).
  Proof.
    intros Hc i. unfold q_slot, q_offset. fold i. cbn [q_abs q_ncols q_start].
    set (nc := ArrayDelayQueue_num_cols o) in *. set (s := ArrayDelayQueue_start_index o).
    assert (E : forall off : nat, Z.to_nat ((Z.of_nat off + Z.of_nat s) mod Z.of_nat nc)%Z = ((off + s) mod nc)%nat).
    { intro off. rewrite <- Nat2Z.inj_add. rewrite <- Nat2Z.inj_mod. apply Nat2Z.id. }
    destruct (i <? 0)%Z eqn:H0.
    - exact (E 0%nat).
    - destruct (i >=? Z.of_nat nc)%Z eqn:H1.
      + rewrite <- (E (nc - 1)%nat). do 3 f_equal. lia.
      + rewrite <- (E (Z.to_nat i)). do 3 f_equal. rewrite Z2Nat.id; [reflexivity|]. apply Z.ltb_ge in H0. exact H0.
  Qed.

  Lemma tie_add_reaction o time r a q' :
    (0 < ArrayDelayQueue_num_cols o)%nat ->
    q_add A (fadd A) (q_abs o) time r a = Some q' ->
    q_abs (gen_ArrayDelayQueue_add_reaction A o time r a) = q' /\
    (wf_obj o -> wf_obj (gen_ArrayDelayQueue_add_reaction A o time r a)).
  Proof.
    intros Hc Hq. unfold q_add in Hq. cbn [q_abs q_cells] in Hq.
    destruct (nth_error (ArrayDelayQueue_queue o) r) as [row|] eqn:Hr; [|discriminate].
    injection Hq as <-.
    unfold gen_ArrayDelayQueue_add_reaction.
    change (ftrunc A (fadd A (fdiv A (fsub A time (ArrayDelayQueue_next_queue_time o)) (ArrayDelayQueue_dt o)) (fdiv A (fofZ A 1%Z) (fofZ A 2%Z))))
      with (q_raw_index A (q_abs o) time).
    cbv zeta. rewrite (slot_index o time Hc).
    set (c := q_slot (q_abs o) (q_offset A (q_abs o) time)).
    unfold q_abs at 1, set_ArrayDelayQueue_queue; cbn [ArrayDelayQueue_queue ArrayDelayQueue_num_cols ArrayDelayQueue_start_index
      ArrayDelayQueue_next_queue_time ArrayDelayQueue_dt ArrayDelayQueue_num_reactions q_ncols q_start q_next q_dt q_abs].
    unfold set2, get2. rewrite Hr. rewrite (nth_error_Some_nth _ _ _ [] Hr).
    split.
    - f_equal. f_equal. unfold row_add.
      destruct (nth_error row c) as [v|] eqn:Hv.
      + rewrite (nth_error_Some_nth _ _ _ z Hv). reflexivity.
      + apply upd_overflow. apply nth_error_None. exact Hv.
    - unfold wf_obj. cbn [ArrayDelayQueue_queue ArrayDelayQueue_num_reactions]. rewrite upd_length. exact (fun H => H).
  Qed.

  (* ---- get_next_reactions *)
  Lemma fill_loop (f : nat -> F) : forall n (pre arr : list F),
    length arr = n ->
    fold_left (fun a i => upd a i (f i)) (seq (length pre) n) (pre ++ arr) = pre ++ map f (seq (length pre) n).
  Proof.
    induction n as [|n IH]; intros pre arr Hl.
    - destruct arr; [reflexivity|discriminate].
    - destruct arr as [|x arr]; [discriminate|]. cbn [seq fold_left map].
      assert (E : forall v, upd (pre ++ x :: arr) (length pre) v = (pre ++ [v]) ++ arr).
      { clear. intro v. induction pre as [|h t IHp]; cbn; [reflexivity|]. f_equal. exact IHp. }
      rewrite E. specialize (IH (pre ++ [f (length pre)]) arr).
      rewrite app_length in IH. cbn [length] in IH. rewrite Nat.add_1_r in IH.
      rewrite IH by (cbn in Hl; lia). rewrite <- app_assoc. reflexivity.
  Qed.

  Lemma map_nth_seq {T U} (g : T -> U) (d : T) (l : list T) : map g l = map (fun i => g (nth i l d)) (seq 0 (length l)).
  Proof.
    induction l as [|h t IH]; [reflexivity|]. cbn [length seq map nth]. f_equal.
    rewrite <- seq_shift, map_map. exact IH.
  Qed.

  Lemma tie_get_next_reactions o arr :
    wf_obj o -> length arr = ArrayDelayQueue_num_reactions o ->
    gen_ArrayDelayQueue_get_next_reactions A o arr = q_peek z (q_abs o).
  Proof.
    intros Hw Hl. unfold gen_ArrayDelayQueue_get_next_reactions, for_range, q_peek. cbn [q_abs q_cells q_start].
    pose proof (fill_loop (fun i => get2 z (ArrayDelayQueue_queue o) i (ArrayDelayQueue_start_index o))
                          (ArrayDelayQueue_num_reactions o) [] arr Hl) as E.
    cbn [length app] in E. rewrite E. rewrite Hw. unfold get2.
    symmetry. exact (map_nth_seq (fun row => nth (ArrayDelayQueue_start_index o) row z) [] (ArrayDelayQueue_queue o)).
  Qed.

  (* ---- advance_time *)
  Lemma clear_loop (s : nat) (v : F) : forall (post pre : list (list F)),
    fold_left (fun c i => set2 c i s v) (seq (length pre) (length post)) (pre ++ post) = pre ++ map (fun row => upd row s v) post.
  Proof.
    induction post as [|row post IH]; intro pre; [reflexivity|].
    cbn [length seq fold_left map].
    assert (E : set2 (pre ++ row :: post) (length pre) s v = (pre ++ [upd row s v]) ++ post).
    { unfold set2. rewrite nth_error_app2 by lia. rewrite Nat.sub_diag. cbn [nth_error].
      clear. induction pre as [|h t IHp]; cbn; [reflexivity|]. f_equal. exact IHp. }
    rewrite E. specialize (IH (pre ++ [upd row s v])). rewrite app_length in IH. cbn [length] in IH. rewrite Nat.add_1_r in IH.
    rewrite IH. rewrite <- app_assoc. reflexivity.
  Qed.

  Lemma obj_loop (l : list nat) (v : F) : forall o : obj,
    fold_left (fun self i => set_ArrayDelayQueue_queue self (set2 (ArrayDelayQueue_queue self) i (ArrayDelayQueue_start_index self) v)) l o =
    set_ArrayDelayQueue_queue o (fold_left (fun c i => set2 c i (ArrayDelayQueue_start_index o) v) l (ArrayDelayQueue_queue o)).
  Proof.
    induction l as [|i l IH]; intro o; [destruct o; reflexivity|].
    cbn [fold_left]. rewrite IH. reflexivity.
  Qed.

  Lemma tie_advance_time o :
    wf_obj o ->
    q_abs (gen_ArrayDelayQueue_advance_time A o) = q_advance A z (q_abs o) /\ wf_obj (gen_ArrayDelayQueue_advance_time A o).
  Proof.
    intro Hw. unfold gen_ArrayDelayQueue_advance_time, for_range. cbv zeta.
    rewrite obj_loop.
    cbn [set_ArrayDelayQueue_next_queue_time set_ArrayDelayQueue_queue set_ArrayDelayQueue_start_index ArrayDelayQueue_queue
         ArrayDelayQueue_num_cols ArrayDelayQueue_start_index ArrayDelayQueue_next_queue_time ArrayDelayQueue_dt ArrayDelayQueue_num_reactions].
    rewrite Hw.
    pose proof (clear_loop (ArrayDelayQueue_start_index o) z (ArrayDelayQueue_queue o) []) as E. cbn [length app] in E. rewrite E.
    split.
    - unfold q_abs, q_advance. cbn [ArrayDelayQueue_queue ArrayDelayQueue_num_cols ArrayDelayQueue_start_index ArrayDelayQueue_next_queue_time
        ArrayDelayQueue_dt q_cells q_ncols q_start q_next q_dt].
      f_equal. change 1%Z with (Z.of_nat 1). rewrite <- Nat2Z.inj_add, <- Nat2Z.inj_mod. apply Nat2Z.id.
    - unfold wf_obj, set_ArrayDelayQueue_start_index, set_ArrayDelayQueue_queue, set_ArrayDelayQueue_next_queue_time.
      cbn [ArrayDelayQueue_queue ArrayDelayQueue_num_reactions]. rewrite map_length. exact Hw.
  Qed.

  (* ---- any history of operations: the generated methods simulate the hand model step for step *)
  Inductive gop := GAdd (time : F) (r : nat) (a : F) | GPop | GSet (t : F).

  Fixpoint gen_run (o : obj) (ops : list gop) : obj * list (list F) :=
    match ops with
    | [] => (o, [])
    | GAdd time r a :: rest => gen_run (gen_ArrayDelayQueue_add_reaction A o time r a) rest
    | GSet t :: rest => gen_run (gen_ArrayDelayQueue_set_current_time A o t) rest
    | GPop :: rest =>
        let d := gen_ArrayDelayQueue_get_next_reactions A o (repeat z (ArrayDelayQueue_num_reactions o)) in
        let '(o', ds) := gen_run (gen_ArrayDelayQueue_advance_time A o) rest in (o', d :: ds)
    end.

  Fixpoint hand_run (q : queue F F) (ops : list gop) : option (queue F F * list (list F)) :=
    match ops with
    | [] => Some (q, [])
    | GAdd time r a :: rest => match q_add A (fadd A) q time r a with Some q' => hand_run q' rest | None => None end
    | GSet t :: rest => hand_run (q_set_time A q t) rest
    | GPop :: rest =>
        match hand_run (q_advance A z q) rest with Some (q', ds) => Some (q', q_peek z q :: ds) | None => None end
    end.

  Lemma add_keeps_ncols q time r a q' : q_add A (fadd A) q time r a = Some q' -> q_ncols q' = q_ncols q.
  Proof. unfold q_add. destruct (nth_error (q_cells q) r); [|discriminate]. intro H; injection H as <-. reflexivity. Qed.

  Lemma tie_history : forall ops o q' ds,
    wf_obj o -> (0 < ArrayDelayQueue_num_cols o)%nat ->
    hand_run (q_abs o) ops = Some (q', ds) ->
    q_abs (fst (gen_run o ops)) = q' /\ snd (gen_run o ops) = ds /\ wf_obj (fst (gen_run o ops)).
  Proof.
    induction ops as [|op rest IH]; intros o q' ds Hw Hc Hr.
    - cbn in *. injection Hr as <- <-. auto.
    - destruct op as [time r a| |t]; cbn [hand_run gen_run] in *.
      + destruct (q_add A (fadd A) (q_abs o) time r a) as [q1|] eqn:Hq; [|discriminate].
        destruct (tie_add_reaction o time r a q1 Hc Hq) as [E W].
        apply IH; [exact (W Hw)| |rewrite E; exact Hr].
        change (ArrayDelayQueue_num_cols (gen_ArrayDelayQueue_add_reaction A o time r a))
          with (q_ncols (q_abs (gen_ArrayDelayQueue_add_reaction A o time r a))).
        rewrite E, (add_keeps_ncols _ _ _ _ _ Hq). exact Hc.
      + destruct (tie_advance_time o Hw) as [E W].
        destruct (hand_run (q_advance A z (q_abs o)) rest) as [[q1 ds1]|] eqn:Hh; [|discriminate].
        injection Hr as <- <-.
        rewrite <- E in Hh.
        assert (Hc' : (0 < ArrayDelayQueue_num_cols (gen_ArrayDelayQueue_advance_time A o))%nat).
        { change (ArrayDelayQueue_num_cols (gen_ArrayDelayQueue_advance_time A o)) with (q_ncols (q_abs (gen_ArrayDelayQueue_advance_time A o))).
          rewrite E. exact Hc. }
        destruct (IH _ _ _ W Hc' Hh) as [E1 [E2 W1]].
        destruct (gen_run (gen_ArrayDelayQueue_advance_time A o) rest) as [o1 dsg]. cbn [fst snd] in *.
        repeat split; [exact E1| |exact W1].
        rewrite E2. f_equal. apply tie_get_next_reactions; [exact Hw|apply repeat_length].
      + apply IH; [exact Hw|exact Hc|exact Hr].
  Qed.

  Lemma source_methods (o : obj) :
    (forall t, q_abs (gen_ArrayDelayQueue_set_current_time A o t) = q_set_time A (q_abs o) t) /\
    gen_ArrayDelayQueue_get_next_queue_time A o = q_next_time (q_abs o) /\
    (forall time r a q', (0 < ArrayDelayQueue_num_cols o)%nat ->
       q_add A (fadd A) (q_abs o) time r a = Some q' -> q_abs (gen_ArrayDelayQueue_add_reaction A o time r a) = q') /\
    (forall arr, wf_obj o -> length arr = ArrayDelayQueue_num_reactions o ->
       gen_ArrayDelayQueue_get_next_reactions A o arr = q_peek z (q_abs o)) /\
    (wf_obj o -> q_abs (gen_ArrayDelayQueue_advance_time A o) = q_advance A z (q_abs o)).
  Proof.
    split; [intro t; apply tie_set_current_time|].
    split; [apply tie_get_next_queue_time|].
    split; [intros time r a q' Hc Hq; exact (proj1 (tie_add_reaction o time r a q' Hc Hq))|].
    split; [intros arr Hw Hl; exact (tie_get_next_reactions o arr Hw Hl)|].
    intro Hw; exact (proj1 (tie_advance_time o Hw)).
  Qed.
End Tie.
