(* C09: whole-run counting for the volume-aware loop over the reals (any volume model, network, rules, stream, fuel):
   the rules with frequency dt -- which fire exactly in the iterations that start with rule_step set -- are applied
   exactly once per elapsed time step of length dt, however many reactions fire in between. *)
From Coq Require Import ZArith Reals List Bool Lia Lra Arith.
From BS Require Import Base.Arith Model.Term Model.Propensity Model.Interface Model.Rules Model.Random Model.Queue Model.SSA
  Proofs.SSAProofs Proofs.VolumeRun.
Import ListNotations.
Local Open Scope R_scope.

Section VCount.
  Variable s : sim R.
  Variable vm : volmodel (F:=R).
  Variable u : nat -> R.
  Notation dt := (sm_dt s). Notation t0 := (sm_t0 s).
  Hypothesis Hdt : 0 < dt.
  Hypothesis Hu : forall n, 0 < u n <= 1.
  Hypothesis Hprops : forall x p V t, 0 <= array_sum ArithR (stoch_props ArithR s StochVol x p V t).

  (* the state VolumeSSASimulator starts from *)
  Definition vinit (ts : list R) (V0 : R) (pos : nat) : vssa_state (F:=R) :=
    mkVssa t0 ts (sm_x0 s) (si_params (sm_if s)) true pos [] [] (fadd ArithR dt t0) V0 false.

  Definition vlive (st : vssa_state (F:=R)) : bool := match vs_todo st with [] => false | _ => true end.
  (* n iterations *)
  Fixpoint vrun (n : nat) (st : vssa_state (F:=R)) : outcome (vssa_state (F:=R)) :=
    match n with
    | O => Done st
    | S k => match vssa_iter ArithR s vm u st with Done st' => vrun k st' | OutOfFuel => OutOfFuel | Fault w => Fault w end
    end.
  (* iterations among the first n that start with rule_step set (= applications of every dt rule, and of every ODE rule's step) *)
  Fixpoint vapps (n : nat) (st : vssa_state (F:=R)) : nat :=
    match n with
    | O => 0%nat
    | S k => ((if vs_rule_step st && vlive st then 1 else 0) +
              match vssa_iter ArithR s vm u st with Done st' => vapps k st' | _ => 0 end)%nat
    end.

  (* j whole steps of length dt have elapsed; c applications so far *)
  Record vcount_inv (st : vssa_state (F:=R)) (j c : nat) : Prop := {
    vc_nq : vs_next_q st = t0 + INR (S j) * dt;
    vc_lo : t0 + INR j * dt <= vs_time st;
    vc_hi : vs_time st <= vs_next_q st;
    vc_count : c = (j + (if vs_rule_step st then 0 else 1))%nat
  }.

  Lemma vcount_step st st' j c : vcount_inv st j c -> vssa_iter ArithR s vm u st = Done st' ->
    exists j', vcount_inv st' j' (c + (if vs_rule_step st && vlive st then 1 else 0)).
  Proof.
    intros [Hnq Hlo Hhi Hc] H. unfold vlive. unfold vssa_iter in H.
    destruct (vs_todo st) as [|tnext todo] eqn:Et.
    { inversion H; subst st'. exists j. rewrite andb_false_r, Nat.add_0_r. constructor; auto. }
    rewrite andb_true_r.
    destruct (apply_rules ArithR (sm_rules s) (Some (vs_V st)) (vs_x st, vs_p st) (vs_time st) dt (vs_rule_step st)) as [x1 p1] eqn:Er.
    set (props := stoch_props ArithR s StochVol x1 p1 (vs_V st) (vs_time st)) in *.
    set (Lambda := array_sum ArithR props) in *.
    assert (HL : 0 <= Lambda) by apply Hprops.
    assert (Hprop : exists proposed fired rs toq pos1,
      (if feqb ArithR Lambda (f0 ArithR) then (fadd ArithR (vs_next_q st) dt, false, true, true, vs_pos st)
       else let '(tau, pos') := exponential_rv ArithR Lambda u (vs_pos st) in (fadd ArithR (vs_time st) tau, true, false, false, pos'))
      = (proposed, fired, rs, toq, pos1) /\ vs_time st <= proposed /\ (toq = true -> vs_next_q st < proposed) /\ (toq = false -> rs = false)).
    { change (feqb ArithR Lambda (f0 ArithR)) with (Reqb Lambda 0). destruct (Reqb Lambda 0) eqn:E0.
      - do 5 eexists. split; [reflexivity|]. cbn [fadd ArithR]. split; [lra|]. split; [intros _; lra|discriminate].
      - pose proof (tau_nonneg u Hu Lambda (vs_pos st) HL E0) as Ht.
        destruct (exponential_rv ArithR Lambda u (vs_pos st)) as [tau pos'] eqn:Ee. cbn [fst] in Ht.
        do 5 eexists. split; [reflexivity|]. cbn [fadd ArithR]. split; [lra|]. split; [discriminate|reflexivity]. }
    destruct Hprop as (proposed & fired & rs & toq & pos1 & Hpe & Hp1 & Hp2 & Hp3). rewrite Hpe in H. clear Hpe.
    change (fltb ArithR (vs_next_q st) proposed) with (Rltb (vs_next_q st) proposed) in H.
    assert (Hcnt : (c + (if vs_rule_step st then 1 else 0) = S j)%nat) by (rewrite Hc; destruct (vs_rule_step st); lia).
    destruct (Rltb (vs_next_q st) proposed) eqn:Eq.
    - (* the next volume step comes first: one more whole step has elapsed, rule_step is set *)
      apply Rltb_true in Eq.
      destruct (record ArithR (tnext :: todo) (vs_next_q st) x1) as [rows rem].
      inversion H; subst st'; clear H. exists (S j).
      constructor; cbn [vs_next_q vs_time vs_rule_step].
      + rewrite Hnq. cbn [fadd ArithR]. rewrite (S_INR (S j)). ring.
      + rewrite Hnq. lra.
      + cbn [fadd ArithR]. lra.
      + rewrite Hcnt. lia.
    - (* the proposed time comes first (a firing): no whole step elapses, rule_step is cleared *)
      apply Rltb_false in Eq.
      assert (Htoq : toq = false) by (destruct toq; auto; specialize (Hp2 eq_refl); lra). subst toq. rewrite (Hp3 eq_refl) in H.
      destruct (record ArithR (tnext :: todo) proposed x1) as [rows rem].
      assert (Hinv' : forall todo' x' pos' rows' vols', vcount_inv (mkVssa proposed todo' x' p1 false pos' rows' vols' (vs_next_q st) (vs_V st) false) j
                                                              (c + (if vs_rule_step st then 1 else 0))).
      { intros. constructor; cbn [vs_next_q vs_time vs_rule_step]; auto; try lra. rewrite Hcnt. lia. }
      destruct fired.
      + destruct (sample_discrete ArithR props Lambda u pos1) as [choice pos2].
        destruct ((choice <? 0)%Z || (Z.of_nat (length props) <=? choice)%Z); [discriminate|].
        inversion H; subst st'. exists j. apply Hinv'.
      + inversion H; subst st'. exists j. apply Hinv'.
  Qed.

  Lemma vcount_run n : forall st st' j c, vcount_inv st j c -> vrun n st = Done st' -> exists j', vcount_inv st' j' (c + vapps n st).
  Proof.
    induction n as [|n IH]; intros st st' j c Hinv H; simpl in H |- *.
    - inversion H; subst. exists j. rewrite Nat.add_0_r. exact Hinv.
    - destruct (vssa_iter ArithR s vm u st) as [st1| |w] eqn:E; try discriminate.
      destruct (vcount_step st st1 j c Hinv E) as (j1 & Hinv1).
      destruct (IH st1 st' j1 _ Hinv1 H) as (j' & Hinv'). exists j'. rewrite Nat.add_assoc. exact Hinv'.
  Qed.

  (* from the initial state of a simulation: after any number of iterations, with j whole steps of length dt elapsed
     (t0 + j dt <= time <= t0 + (j+1) dt = the next volume step), the dt rules have been applied exactly j times, plus once
     more iff the pass for the step in progress has already been made (rule_step cleared) *)
  Theorem volume_dt_rules_once_per_step ts V0 pos n st :
    vrun n (vinit ts V0 pos) = Done st ->
    exists j : nat,
      vs_next_q st = t0 + INR (S j) * dt /\ t0 + INR j * dt <= vs_time st <= t0 + INR (S j) * dt /\
      vapps n (vinit ts V0 pos)
        = (j + (if vs_rule_step st then 0 else 1))%nat.
  Proof.
    intros H.
    assert (Hinit : vcount_inv (vinit ts V0 pos) 0 0).
    { unfold vinit. constructor; cbn [vs_next_q vs_time vs_rule_step fadd ArithR]; simpl INR; try lra. reflexivity. }
    destruct (vcount_run n _ _ _ _ Hinit H) as (j & [Hnq Hlo Hhi Hc]). exists j.
    split; [exact Hnq|]. split; [rewrite <- Hnq; lra|]. exact Hc.
  Qed.

  (* vssa_loop is vrun for the number of iterations it makes *)
  Lemma vssa_loop_vrun fuel : forall st st', vssa_loop ArithR fuel s vm u st = Done st' -> exists n, vrun n st = Done st'.
  Proof.
    induction fuel as [|fuel IH]; intros st st' H; simpl in H.
    - destruct (vs_todo st); [|discriminate]. exists 0%nat. exact H.
    - destruct (vs_todo st) eqn:Et; [exists 0%nat; exact H|].
      destruct (vssa_iter ArithR s vm u st) as [st1| |w] eqn:E; try discriminate.
      destruct (IH st1 st' H) as (n & Hn). exists (S n). simpl. rewrite E. exact Hn.
  Qed.

  Theorem volume_run_dt_rules ts V0 pos fuel st :
    vssa_simulate ArithR fuel s vm V0 ts u pos = Done st ->
    exists n j : nat,
      vrun n (vinit ts V0 pos) = Done st /\
      vs_next_q st = t0 + INR (S j) * dt /\ t0 + INR j * dt <= vs_time st <= t0 + INR (S j) * dt /\
      vapps n (vinit ts V0 pos)
        = (j + (if vs_rule_step st then 0 else 1))%nat.
  Proof.
    intros H. unfold vssa_simulate in H. fold (vinit ts V0 pos) in H. destruct (vssa_loop_vrun fuel _ _ H) as (n & Hn).
    destruct (volume_dt_rules_once_per_step ts V0 pos n st Hn) as (j & H1 & H2 & H3). exists n, j. auto.
  Qed.
End VCount.
