(* The log-density theorems of PriorProofs restated for the prior functions regenerated from the source. *)
From Coq Require Import ZArith Reals List Bool.
From BS Require Import Base.Arith Base.CyPrelude Model.Priors Spec.Densities Proofs.PriorProofs Gen.PriorsGen Proofs.TiePriors.
Local Open Scope R_scope.

Section R.
  Variables (G : R -> R) (B : R -> R -> R).

  Lemma source_priors_inside :
    (forall lb ub x, lb < ub -> lb <= x <= ub -> gen_uniform_prior ArithR lb ub x = Val (ld_uniform lb ub x)) /\
    (forall mu s x, 0 < s -> gen_gaussian_prior ArithR PI mu s x = Val (ld_gaussian mu s x)) /\
    (forall lam h2 x, 0 < lam -> 0 <= x -> gen_exponential_prior ArithR lam h2 x = Val (ld_exponential lam x)) /\
    (forall a b x, 0 < b -> 0 < G a -> 0 < x -> gen_gamma_prior ArithR G a b x = Val (ld_gamma G a b x)) /\
    (forall a b x, 0 < B a b -> 0 < x < 1 -> gen_beta_prior ArithR B a b x = Val (ld_beta B a b x)) /\
    (forall lb ub x, 0 < lb -> lb < ub -> lb <= x <= ub -> gen_log_uniform_prior ArithR lb ub x = Val (ld_loguniform lb ub x)) /\
    (forall mu s x, 0 < s -> 0 < x -> gen_log_gaussian_prior ArithR PI mu s x = Val (ld_loggaussian mu s x)).
  Proof.
    split; [intros; rewrite (tie_uniform ArithR PI G B); apply (uniform_inside G B); assumption|].
    split; [intros; rewrite (tie_gaussian ArithR PI G B); apply (gaussian_inside G B); assumption|].
    split; [intros; rewrite (tie_exponential ArithR PI G B); apply (exponential_inside G B); assumption|].
    split; [intros; rewrite (tie_gamma ArithR PI G B); apply (gamma_inside G B); assumption|].
    split; [intros; rewrite (tie_beta ArithR PI G B); apply (beta_inside G B); assumption|].
    split; [intros; rewrite (tie_log_uniform ArithR PI G B); apply (loguniform_inside G B); assumption|].
    intros; rewrite (tie_log_gaussian ArithR PI G B); apply (loggaussian_inside G B); assumption.
  Qed.

  Lemma source_priors_outside :
    (forall lb ub x, x < lb \/ ub < x -> gen_uniform_prior ArithR lb ub x = Reject) /\
    (forall lam h2 x, x < 0 -> gen_exponential_prior ArithR lam h2 x = Reject) /\
    (forall a b x, x < 0 -> gen_gamma_prior ArithR G a b x = Reject) /\
    (forall a b x, x < 0 \/ 1 < x -> gen_beta_prior ArithR B a b x = Reject) /\
    (forall lb ub x, 0 <= lb -> 0 <= ub -> x < lb \/ ub < x -> gen_log_uniform_prior ArithR lb ub x = Reject).
  Proof.
    split; [intros; rewrite (tie_uniform ArithR PI G B); apply (uniform_outside G B); assumption|].
    split; [intros; rewrite (tie_exponential ArithR PI G B); apply (exponential_outside G B); assumption|].
    split; [intros; rewrite (tie_gamma ArithR PI G B); apply (gamma_outside G B); assumption|].
    split; [intros; rewrite (tie_beta ArithR PI G B); apply (beta_outside G B); assumption|].
    intros; rewrite (tie_log_uniform ArithR PI G B); apply (loguniform_outside G B); assumption.
  Qed.
End R.
