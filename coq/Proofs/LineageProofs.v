(* C19 (lineage single-cell loop): what every reported row is.  Any arithmetic for the structural part, reals for
   the positivity of the volume. *)
From Coq Require Import ZArith Reals List Bool Lia Lra Arith.
From BS Require Import Base.Arith Model.Term Model.Propensity Model.Interface Model.Rules Model.Random Model.Queue Model.SSA Model.Lineage
  Proofs.SSAProofs.
Import ListNotations.

Section Structure.
  Context {F : Type} (A : Arith F) (pi2 : F) (eps9 eps7 : F).
  Variable l : lin F.
  Notation s := (ln_sim l).

  (* every reported (row, volume) pair is: a rule pass (with the volume current at that moment) applied to a state the loop
     was in, together with that volume, which is one of the values the loop's volume variable took *)
  Definition row_ok (vols_seen : list F) (row : list F) (v : F) : Prop :=
    In v vols_seen /\ exists x p t step dt, row = fst (apply_rules A (sm_rules s) (Some v) (x, p) t dt step).

  Definition linv (seen : list F) (st : lstate (F:=F)) : Prop :=
    length (ls_rows st) = length (ls_vols st) /\ In (ls_V st) seen /\
    Forall2 (row_ok seen) (ls_rows st) (ls_vols st) /\
    ((0 <=? ls_divided st)%Z || (0 <=? ls_dead st)%Z = true -> row_ok seen (ls_x st) (ls_V st)).

  Lemma row_ok_mono seen seen' row v : incl seen seen' -> row_ok seen row v -> row_ok seen' row v.
  Proof. intros Hi [H1 H2]. split; auto. Qed.
  Lemma Forall2_mono seen seen' rows vols : incl seen seen' -> Forall2 (row_ok seen) rows vols -> Forall2 (row_ok seen') rows vols.
  Proof. intros Hi H. induction H; constructor; auto. eapply row_ok_mono; eauto. Qed.

  Lemma Forall2_app_rep seen (rows : list (list F)) vols (x1 : list F) V k :
    Forall2 (row_ok seen) rows vols -> row_ok seen x1 V ->
    Forall2 (row_ok seen) (rows ++ repeat x1 k) (vols ++ map (fun _ => V) (repeat x1 k)).
  Proof. intros H1 H2. apply Forall2_app; auto. induction k; simpl; constructor; auto. Qed.

  Lemma lssa_iter_inv dt final t_init V_init u seen st st' : linv seen st ->
    lssa_iter A pi2 eps9 eps7 l dt final t_init V_init u st = Done st' ->
    exists seen', incl seen seen' /\ (forall v, In v seen' -> In v seen \/ fleb A v (f0 A) = false) /\ linv seen' st'.
  Proof.
    intros (Hlen & HV & Hrows & Hstop) H. unfold lssa_iter in H.
    destruct (ls_todo st) as [|tnext todo] eqn:Et; [inversion H; subst; exists seen; split; [apply incl_refl|split; [intros v Hv; left; exact Hv|split; [|split; [|split]]; assumption]]|].
    destruct (apply_rules A (sm_rules s) (Some (ls_V st)) (ls_x st, ls_p st) (ls_time st) dt (ls_rule_step st)) as [x1 p1] eqn:Er.
    assert (Hx1 : row_ok seen x1 (ls_V st)).
    { split; auto. exists (ls_x st), (ls_p st), (ls_time st), (ls_rule_step st), dt. rewrite Er. reflexivity. }
    destruct (first_true (fun r => krule_check A pi2 eps9 r x1 p1 (ls_time st) (ls_V st) u) (ln_krules l) 0%Z (ls_pos st)) as [dead posa].
    destruct (first_true (fun r => drule_check A pi2 eps9 r x1 p1 (ls_time st) (ls_V st) t_init V_init u) (ln_drules l) 0%Z posa) as [divd posb].
    destruct (0 <=? dead)%Z.
    { inversion H; subst; clear H. exists seen. split; [apply incl_refl|]. split; [intros v0 Hv0; left; exact Hv0|]. split; [exact Hlen|split; [exact HV|split; [exact Hrows|intros _; exact Hx1]]]. }
    destruct (0 <=? divd)%Z.
    { inversion H; subst; clear H. exists seen. split; [apply incl_refl|]. split; [intros v0 Hv0; left; exact Hv0|]. split; [exact Hlen|split; [exact HV|split; [exact Hrows|intros _; exact Hx1]]]. }
    set (props := lin_props A l x1 p1 (ls_V st) (ls_time st)) in *.
    set (Lambda := array_sum A props) in *.
    destruct (if feqb A Lambda (f0 A) then ((if fltb A (fadd A (ls_time st) dt) (ls_next_q st) then ls_next_q st else fadd A (ls_time st) dt), true, posb)
              else let '(tau, pos') := exponential_rv A Lambda u posb in (fadd A (ls_time st) tau, false, pos'))
      as [[proposed rs] pos1].
    destruct (if (fltb A (ls_next_q st) proposed || feqb A Lambda (f0 A) && fleb A (ls_next_q st) proposed) && fltb A (ls_next_q st) final
              then (ls_next_q st, fadd A (ls_next_q st) dt, true, true)
              else if fltb A (fsub A final eps7) proposed then (final, ls_next_q st, true, true) else (proposed, ls_next_q st, false, rs))
      as [[[time' nq'] toq] rs'].
    destruct (record A (tnext :: todo) time' x1) as [rows rem] eqn:E3.
    destruct (record_rows A _ _ _ _ _ E3) as (_ & k & -> & _ & _).
    assert (Hlen' : length (ls_rows st ++ repeat x1 k) = length (ls_vols st ++ map (fun _ => ls_V st) (repeat x1 k))).
    { rewrite !app_length, map_length. lia. }
    assert (Hrows' : Forall2 (row_ok seen) (ls_rows st ++ repeat x1 k) (ls_vols st ++ map (fun _ => ls_V st) (repeat x1 k))).
    { apply Forall2_app_rep; auto. }
    assert (Hgrow : forall V', linv (V' :: seen) (mkLst time' rem x1 p1 rs' pos1 (ls_rows st ++ repeat x1 k)
                         (ls_vols st ++ map (fun _ => ls_V st) (repeat x1 k)) nq' V' (-1)%Z (-1)%Z false)).
    { intros V'. split; [exact Hlen'|]. split; [left; reflexivity|]. split; [|cbn; discriminate].
      apply (Forall2_mono seen); [apply incl_tl, incl_refl|exact Hrows']. }
    destruct toq.
    - destruct (apply_volume_rules A pi2 (ln_vrules l) x1 p1 (ls_V st) time' dt u pos1) as [V' posv].
      destruct (fleb A V' (f0 A)) eqn:EV; [discriminate|]. inversion H; subst; clear H.
      exists (V' :: seen). split; [apply incl_tl, incl_refl|]. split; [intros v0 [<-|Hv0]; [right; exact EV|left; exact Hv0]|apply Hgrow].
    - destruct (sample_discrete A props Lambda u pos1) as [choice pos2].
      destruct ((choice <? 0)%Z || (Z.of_nat (length props) <=? choice)%Z); [discriminate|].
      destruct (Z.to_nat choice <? length (si_props (sm_if s)))%nat.
      { inversion H; subst; clear H. exists seen. split; [apply incl_refl|]. split; [intros v0 Hv0; left; exact Hv0|]. split; [exact Hlen'|]. split; [exact HV|]. split; [exact Hrows'|cbn; discriminate]. }
      destruct (Z.to_nat choice <? length (si_props (sm_if s)) + length (ln_vevents l))%nat.
      { match type of H with context [fleb A ?v (f0 A)] => set (V' := v) in * end.
        destruct (fleb A V' (f0 A)) eqn:EV; [discriminate|]. inversion H; subst; clear H.
        exists (V' :: seen). split; [apply incl_tl, incl_refl|]. split; [intros v0 [<-|Hv0]; [right; exact EV|left; exact Hv0]|].
        split; [exact Hlen'|]. split; [left; reflexivity|]. split; [|cbn; discriminate].
        apply (Forall2_mono seen); [apply incl_tl, incl_refl|exact Hrows']. }
      destruct (Z.to_nat choice <? length (si_props (sm_if s)) + length (ln_vevents l) + length (ln_devents l))%nat;
        inversion H; subst; clear H; exists seen; (split; [apply incl_refl|]); (split; [intros v0 Hv0; left; exact Hv0|]); (split; [exact Hlen'|]); (split; [exact HV|]); (split; [exact Hrows'|intros _; exact Hx1]).
  Qed.

  Lemma lssa_loop_inv dt final t_init V_init u fuel : forall seen st st', linv seen st ->
    lssa_loop A pi2 eps9 eps7 fuel l dt final t_init V_init u st = Done st' ->
    exists seen', incl seen seen' /\ (forall v, In v seen' -> In v seen \/ fleb A v (f0 A) = false) /\ linv seen' st'.
  Proof.
    induction fuel as [|fuel IH]; intros seen st st' Hinv H; simpl in H.
    - destruct (ls_todo st); [inversion H; subst; exists seen; split; [apply incl_refl|split; [intros v0 Hv0; left; exact Hv0|exact Hinv]]|].
      destruct (ls_stop st); [inversion H; subst; exists seen; split; [apply incl_refl|split; [intros v0 Hv0; left; exact Hv0|exact Hinv]]|discriminate].
    - destruct (ls_todo st) eqn:Et; [inversion H; subst; exists seen; split; [apply incl_refl|split; [intros v0 Hv0; left; exact Hv0|exact Hinv]]|].
      destruct (ls_stop st); [inversion H; subst; exists seen; split; [apply incl_refl|split; [intros v0 Hv0; left; exact Hv0|exact Hinv]]|].
      destruct (lssa_iter A pi2 eps9 eps7 l dt final t_init V_init u st) as [st1| |w] eqn:E; try discriminate.
      destruct (lssa_iter_inv dt final t_init V_init u seen st st1 Hinv E) as (seen1 & Hi1 & Hp1 & Hinv1).
      destruct (IH seen1 st1 st' Hinv1 H) as (seen2 & Hi2 & Hp2 & Hinv2).
      exists seen2. split; [eapply incl_tran; eauto|]. split; [|exact Hinv2].
      intros v0 Hv0. destruct (Hp2 v0 Hv0) as [Hin|Hf]; [apply Hp1; exact Hin|right; exact Hf].
  Qed.

  Lemma lssa_finish_inv seen st : linv seen st -> linv seen (lssa_finish A st).
  Proof.
    intros (Hlen & HV & Hrows & Hstop). unfold lssa_finish.
    destruct ((0 <=? ls_divided st)%Z || (0 <=? ls_dead st)%Z) eqn:Es; [|split; [exact Hlen|split; [exact HV|split; [exact Hrows|rewrite Es; exact Hstop]]]].
    destruct (ls_todo st) as [|t rest]; [split; [exact Hlen|split; [exact HV|split; [exact Hrows|rewrite Es; exact Hstop]]]|].
    destruct (fltb A (ls_time st) t || match ls_rows st with [] => true | _ => false end); [|split; [exact Hlen|split; [exact HV|split; [exact Hrows|rewrite Es; exact Hstop]]]].
    split; [cbn; rewrite !app_length; cbn; lia|]. split; [exact HV|]. split; [|cbn; rewrite Es; exact Hstop].
    cbn. apply Forall2_app; auto.
  Qed.

  (* whole single-cell simulation *)
  Theorem lssa_rows_ok fuel ts t_cur t_init V V_init x0 u pos st :
    lssa_simulate A pi2 eps9 eps7 fuel l ts t_cur t_init V V_init x0 u pos = Done st ->
    exists seen, In V seen /\ (forall v, In v seen -> v = V \/ fleb A v (f0 A) = false) /\
                 length (ls_rows st) = length (ls_vols st) /\ Forall2 (row_ok seen) (ls_rows st) (ls_vols st).
  Proof.
    unfold lssa_simulate. destruct ts as [|t0 [|t1 ts']]; try discriminate.
    set (st0 := mkLst t_cur (t0 :: t1 :: ts') x0 (si_params (sm_if s)) true pos [] [] t1 V (-1)%Z (-1)%Z false).
    destruct (lssa_loop A pi2 eps9 eps7 fuel l (fsub A t1 t0) (last (t0 :: t1 :: ts') t0) t_init V_init u st0) as [st1| |w] eqn:E; try discriminate.
    intros H. inversion H; subst; clear H.
    assert (H0 : linv [V] st0).
    { split; [reflexivity|]. split; [left; reflexivity|]. split; [constructor|cbn; discriminate]. }
    destruct (lssa_loop_inv _ _ _ _ _ fuel [V] st0 st1 H0 E) as (seen & Hi & Hp & Hinv).
    destruct (lssa_finish_inv seen st1 Hinv) as (Hlen & _ & Hrows & _).
    exists seen. split; [apply Hi; left; reflexivity|]. split; [|split; auto].
    intros v0 Hv0. destruct (Hp v0 Hv0) as [[<-|[]]|Hf]; [left; reflexivity|right; exact Hf].
  Qed.
End Structure.


(* without rules: the reported rows of a cell are linked by reaction paths from the state it was born with *)
Section LReach.
  Context {F : Type} (A : Arith F) (pi2 : F) (eps9 eps7 : F).
  Variable l : lin F.
  Notation s := (ln_sim l).
  Hypothesis no_rules : sm_rules s = [].

  Definition lpath_inv (x0 : list F) (st : lstate (F:=F)) : Prop :=
    chain A s x0 (ls_rows st) /\ reachable A s (last_or x0 (ls_rows st)) (ls_x st).

  Lemma last_reach x0 (rows : list (list F)) x k : reachable A s (last_or x0 rows) x ->
    chain A s x0 rows -> chain A s x0 (rows ++ repeat x k) /\ reachable A s (last_or x0 (rows ++ repeat x k)) x.
  Proof.
    intros Hr Hc. split; [apply chain_app; auto; apply chain_repeat; auto|].
    unfold last_or. destruct k as [|k]; [simpl; rewrite app_nil_r; exact Hr|].
    rewrite last_app_ne by (simpl; discriminate).
    change (last (repeat x (S k)) x0) with (last_or x0 (repeat x (S k))). rewrite last_repeat. apply reachable_refl.
  Qed.

  Lemma lssa_iter_path dt final t_init V_init u x0 st st' : lpath_inv x0 st ->
    lssa_iter A pi2 eps9 eps7 l dt final t_init V_init u st = Done st' -> lpath_inv x0 st'.
  Proof.
    intros [Hc Hr] H. unfold lssa_iter in H.
    destruct (ls_todo st) as [|tnext todo] eqn:Et; [inversion H; subst; split; auto|].
    rewrite no_rules in H. cbn [apply_rules fold_left] in H.
    destruct (first_true (fun r => krule_check A pi2 eps9 r (ls_x st) (ls_p st) (ls_time st) (ls_V st) u) (ln_krules l) 0%Z (ls_pos st)) as [dead posa].
    destruct (first_true (fun r => drule_check A pi2 eps9 r (ls_x st) (ls_p st) (ls_time st) (ls_V st) t_init V_init u) (ln_drules l) 0%Z posa) as [divd posb].
    destruct (0 <=? dead)%Z; [inversion H; subst; split; auto|].
    destruct (0 <=? divd)%Z; [inversion H; subst; split; auto|].
    set (props := lin_props A l (ls_x st) (ls_p st) (ls_V st) (ls_time st)) in *.
    set (Lambda := array_sum A props) in *.
    destruct (if feqb A Lambda (f0 A) then ((if fltb A (fadd A (ls_time st) dt) (ls_next_q st) then ls_next_q st else fadd A (ls_time st) dt), true, posb)
              else let '(tau, pos') := exponential_rv A Lambda u posb in (fadd A (ls_time st) tau, false, pos'))
      as [[proposed rs] pos1].
    destruct (if (fltb A (ls_next_q st) proposed || feqb A Lambda (f0 A) && fleb A (ls_next_q st) proposed) && fltb A (ls_next_q st) final
              then (ls_next_q st, fadd A (ls_next_q st) dt, true, true)
              else if fltb A (fsub A final eps7) proposed then (final, ls_next_q st, true, true) else (proposed, ls_next_q st, false, rs))
      as [[[time' nq'] toq] rs'].
    destruct (record A (tnext :: todo) time' (ls_x st)) as [rows rem] eqn:E3.
    destruct (record_rows A _ _ _ _ _ E3) as (_ & k & -> & _ & _).
    destruct (last_reach x0 (ls_rows st) (ls_x st) k Hr Hc) as [Hc' Hr'].
    destruct toq.
    - destruct (apply_volume_rules A pi2 (ln_vrules l) (ls_x st) (ls_p st) (ls_V st) time' dt u pos1) as [V' posv].
      destruct (fleb A V' (f0 A)); [discriminate|]. inversion H; subst; split; auto.
    - destruct (sample_discrete A props Lambda u pos1) as [choice pos2].
      destruct ((choice <? 0)%Z || (Z.of_nat (length props) <=? choice)%Z) eqn:Eb; [discriminate|].
      destruct (Nat.ltb_spec (Z.to_nat choice) (length (si_props (sm_if s)))) as [Hlt|Hge].
      { inversion H; subst; clear H. split; auto. cbn. apply reachable_step; auto. }
      destruct (Z.to_nat choice <? length (si_props (sm_if s)) + length (ln_vevents l))%nat.
      { match type of H with context [fleb A ?v (f0 A)] => destruct (fleb A v (f0 A)) end; [discriminate|]. inversion H; subst; split; auto. }
      destruct (Z.to_nat choice <? length (si_props (sm_if s)) + length (ln_vevents l) + length (ln_devents l))%nat; inversion H; subst; split; auto.
  Qed.

  Theorem lssa_rows_are_paths fuel ts t_cur t_init V V_init x0 u pos st :
    lssa_simulate A pi2 eps9 eps7 fuel l ts t_cur t_init V V_init x0 u pos = Done st -> chain A s x0 (ls_rows st).
  Proof.
    unfold lssa_simulate. destruct ts as [|t0 [|t1 ts']]; try discriminate.
    set (st0 := mkLst t_cur (t0 :: t1 :: ts') x0 (si_params (sm_if s)) true pos [] [] t1 V (-1)%Z (-1)%Z false).
    generalize (last (t0 :: t1 :: ts') t0) as fin. generalize (fsub A t1 t0) as dt0. intros dt0 fin.
    destruct (lssa_loop A pi2 eps9 eps7 fuel l dt0 fin t_init V_init u st0) as [st1| |w] eqn:E; try discriminate.
    intros H. inversion H; subst; clear H.
    assert (G : forall fuel sta stb, lpath_inv x0 sta -> lssa_loop A pi2 eps9 eps7 fuel l dt0 fin t_init V_init u sta = Done stb -> lpath_inv x0 stb).
    { induction fuel0 as [|f IH]; intros sta stb Ha Hl; simpl in Hl.
      - destruct (ls_todo sta); [inversion Hl; subst; auto|]. destruct (ls_stop sta); [inversion Hl; subst; auto|discriminate].
      - destruct (ls_todo sta) eqn:Eta; [inversion Hl; subst; auto|]. destruct (ls_stop sta); [inversion Hl; subst; auto|].
        destruct (lssa_iter A pi2 eps9 eps7 l dt0 fin t_init V_init u sta) as [stc| |w] eqn:Ei; try discriminate.
        eapply IH; [|exact Hl]. eapply lssa_iter_path; eauto. }
    assert (H0 : lpath_inv x0 st0) by (split; cbn; auto; apply reachable_refl).
    destruct (G fuel st0 st1 H0 E) as [Hc Hr].
    unfold lssa_finish. destruct ((0 <=? ls_divided st1)%Z || (0 <=? ls_dead st1)%Z); [|exact Hc].
    destruct (ls_todo st1) as [|t rest]; [exact Hc|].
    destruct (fltb A (ls_time st1) t || match ls_rows st1 with [] => true | _ => false end); [|exact Hc].
    cbn. apply (proj1 (last_reach x0 (ls_rows st1) (ls_x st1) 1 Hr Hc)).
  Qed.
End LReach.

(* over the reals: every reported volume is positive when the cell starts with a positive volume *)
Local Open Scope R_scope.
Theorem lssa_volumes_positive (l : lin R) pi2 eps9 eps7 fuel ts t_cur t_init V V_init x0 u pos st : 0 < V ->
  lssa_simulate ArithR pi2 eps9 eps7 fuel l ts t_cur t_init V V_init x0 u pos = Done st ->
  Forall (fun v => 0 < v) (ls_vols st) /\ length (ls_rows st) = length (ls_vols st).
Proof.
  intros HV H. destruct (lssa_rows_ok ArithR pi2 eps9 eps7 l fuel ts t_cur t_init V V_init x0 u pos st H) as (seen & _ & Hp & Hlen & Hrows).
  split; [|exact Hlen]. clear -HV Hp Hrows. induction Hrows as [|row v rows vols [Hin _] _ IH]; constructor; auto.
  destruct (Hp v Hin) as [->|Hf]; [exact HV|]. change (fleb ArithR v (f0 ArithR)) with (Rleb v 0) in Hf. apply Rleb_false in Hf. exact Hf.
Qed.

