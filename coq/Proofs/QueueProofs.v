(* Refinement of the ring buffer to an abstract "pending at offset" table, for any time
   arithmetic and any amount monoid. *)
From Coq Require Import ZArith List Bool Lia Arith.
From BS Require Import Base.Arith Model.Queue Proofs.ListLemmas.
Import ListNotations.

Section QP.
  Context {F : Type} (A : Arith F) {M : Type} (mzero : M) (madd : M -> M -> M).
  Notation queue := (queue F M).
  Notation q_add := (q_add A madd).
  Notation q_offset := (q_offset A).
  Notation q_pending := (q_pending mzero).
  Notation q_advance := (q_advance A mzero).
  Notation q_peek := (q_peek mzero).

  Definition wfq (q : queue) : Prop :=
    (0 < q_ncols q)%nat /\ (q_start q < q_ncols q)%nat /\
    Forall (fun row => length row = q_ncols q) (q_cells q).

  Lemma wfq_make nrx ncols dt t : (0 < ncols)%nat -> wfq (q_make A mzero nrx ncols dt t).
  Proof.
    intros H; unfold wfq, q_make; simpl; repeat split; auto.
    apply Forall_forall; intros row Hin. apply repeat_spec in Hin; subst. apply repeat_length.
  Qed.

  Lemma offset_lt (q : queue) time : (0 < q_ncols q)%nat -> (q_offset q time < q_ncols q)%nat.
  Proof.
    intros H; unfold Queue.q_offset.
    destruct (Z.ltb_spec (q_raw_index A q time) 0); [lia|].
    destruct (Z.geb_spec (q_raw_index A q time) (Z.of_nat (q_ncols q))); lia.
  Qed.

  Lemma slot_lt (q : queue) off : (0 < q_ncols q)%nat -> (q_slot q off < q_ncols q)%nat.
  Proof. intros H; unfold q_slot. apply Nat.mod_upper_bound. lia. Qed.

  Lemma wfq_add (q : queue) time r a q' : wfq q -> q_add q time r a = Some q' -> wfq q'.
  Proof.
    intros (Hn & Hs & Hrows) H; unfold Queue.q_add in H.
    destruct (nth_error (q_cells q) r) as [row|] eqn:Er; [|discriminate].
    inversion H; subst; clear H. unfold wfq; simpl; repeat split; auto.
    apply Forall_upd; auto.
    assert (Hrow : length row = q_ncols q).
    { rewrite Forall_forall in Hrows. apply Hrows. eapply nth_error_In; eauto. }
    unfold row_add. destruct (nth_error row _); auto. rewrite upd_length; auto.
  Qed.

  Lemma wfq_advance (q : queue) : wfq q -> wfq (q_advance q).
  Proof.
    intros (Hn & Hs & Hrows); unfold wfq, Queue.q_advance; simpl; repeat split; auto.
    - apply Nat.mod_upper_bound; lia.
    - apply Forall_forall. intros row Hin. apply in_map_iff in Hin. destruct Hin as (row0 & <- & Hin0).
      rewrite upd_length. rewrite Forall_forall in Hrows. auto.
  Qed.

  (* add: the cell at (offset of the requested time, r) gains the amount; nothing else changes *)
  Theorem pending_add (q : queue) time r a q' off r' :
    wfq q -> q_add q time r a = Some q' -> (off < q_ncols q)%nat ->
    q_pending q' off r' =
      if Nat.eqb off (q_offset q time) && Nat.eqb r' r then madd (q_pending q off r') a
      else q_pending q off r'.
  Proof.
    intros (Hn & Hs & Hrows) H Hoff. unfold Queue.q_add in H.
    destruct (nth_error (q_cells q) r) as [row|] eqn:Er; [|discriminate].
    inversion H; subst; clear H. unfold Queue.q_pending, q_slot; simpl.
    assert (Hr : (r < length (q_cells q))%nat) by (apply nth_error_Some; congruence).
    assert (Hrow : length row = q_ncols q).
    { rewrite Forall_forall in Hrows. apply Hrows. eapply nth_error_In; eauto. }
    assert (Hrowd : nth r (q_cells q) [] = row).
    { apply nth_error_nth with (d := []) in Er. exact Er. }
    rewrite nth_upd. apply Nat.ltb_lt in Hr. rewrite Hr.
    destruct (Nat.eqb_spec r r') as [->|Hne].
    - rewrite Nat.eqb_refl, andb_true_r. rewrite Hrowd.
      unfold row_add.
      set (c := ((q_offset q time + q_start q) mod q_ncols q)%nat).
      assert (Hc : (c < length row)%nat) by (rewrite Hrow; apply Nat.mod_upper_bound; lia).
      rewrite (nth_error_nth' row c mzero Hc). rewrite nth_upd.
      apply Nat.ltb_lt in Hc. rewrite Hc.
      destruct (Nat.eqb_spec off (q_offset q time)) as [->|Hne].
      + fold c. rewrite Nat.eqb_refl. reflexivity.
      + destruct (Nat.eqb_spec c ((off + q_start q) mod q_ncols q)) as [Heq|]; auto.
        exfalso. apply Hne. symmetry. unfold c in Heq.
        eapply slot_inj; [| | |exact Heq]; auto. apply offset_lt; auto.
    - replace (Nat.eqb r' r) with false by (symmetry; apply Nat.eqb_neq; congruence).
      rewrite andb_false_r. reflexivity.
  Qed.

  Lemma add_total (q : queue) time r a : (r < length (q_cells q))%nat -> exists q', q_add q time r a = Some q'.
  Proof.
    intros H. unfold Queue.q_add. destruct (nth_error (q_cells q) r) eqn:E; eauto.
    apply nth_error_None in E. lia.
  Qed.

  Lemma add_preserves (q : queue) time r a q' : q_add q time r a = Some q' ->
    q_ncols q' = q_ncols q /\ q_start q' = q_start q /\ q_next q' = q_next q /\ q_dt q' = q_dt q
    /\ length (q_cells q') = length (q_cells q).
  Proof.
    unfold Queue.q_add. destruct (nth_error (q_cells q) r); [|discriminate].
    intros H; inversion H; subst; simpl. rewrite upd_length. auto.
  Qed.

  (* read: what is delivered is what is pending at offset 0 *)
  Theorem peek_is_pending0 (q : queue) r : wfq q -> (r < length (q_cells q))%nat ->
    nth r (q_peek q) mzero = q_pending q 0 r.
  Proof.
    intros (Hn & Hs & Hrows) Hr. unfold Queue.q_peek, Queue.q_pending, q_slot.
    rewrite (nth_indep _ mzero (nth (q_start q) [] mzero)) by (rewrite map_length; auto).
    rewrite (map_nth (fun row => nth (q_start q) row mzero)).
    simpl. rewrite Nat.mod_small by auto. reflexivity.
  Qed.
  Lemma peek_length (q : queue) : length (q_peek q) = length (q_cells q).
  Proof. unfold Queue.q_peek. apply map_length. Qed.

  (* advance: everything moves one slot nearer; the vacated last slot is empty *)
  Theorem pending_advance (q : queue) off r : wfq q -> (r < length (q_cells q))%nat -> (off < q_ncols q)%nat ->
    q_pending (q_advance q) off r =
      if Nat.eqb off (q_ncols q - 1) then mzero else q_pending q (S off) r.
  Proof.
    intros (Hn & Hs & Hrows) Hr Hoff. unfold Queue.q_pending, Queue.q_advance, q_slot; cbn [q_cells q_ncols q_start].
    rewrite (nth_indep _ [] (upd [] (q_start q) mzero)) by (rewrite map_length; auto).
    rewrite (map_nth (fun row => upd row (q_start q) mzero)).
    assert (Hrow : length (nth r (q_cells q) []) = q_ncols q) by (apply Forall_nth'; auto).
    rewrite nth_upd, Hrow. apply Nat.ltb_lt in Hs as Hs'. rewrite Hs'.
    assert (Hs1 : ((q_start q + 1) mod q_ncols q < q_ncols q)%nat) by (apply Nat.mod_upper_bound; lia).
    rewrite (mod_add_small off _ _ Hoff Hs1).
    assert (Hone : ((q_start q + 1) mod q_ncols q =
                    if Nat.ltb (q_start q + 1) (q_ncols q) then q_start q + 1 else 0)%nat).
    { destruct (Nat.ltb_spec (q_start q + 1) (q_ncols q)).
      - apply Nat.mod_small; auto.
      - replace (q_start q + 1)%nat with (q_ncols q) by lia. apply Nat.mod_same; lia. }
    rewrite Hone.
    destruct (Nat.eqb_spec off (q_ncols q - 1)) as [->|Hne].
    - destruct (Nat.ltb_spec (q_start q + 1) (q_ncols q)).
      + destruct (Nat.ltb_spec (q_ncols q - 1 + (q_start q + 1)) (q_ncols q)); [lia|].
        replace (q_ncols q - 1 + (q_start q + 1) - q_ncols q)%nat with (q_start q) by lia.
        rewrite Nat.eqb_refl. reflexivity.
      + assert (q_start q = q_ncols q - 1)%nat by lia.
        destruct (Nat.ltb_spec (q_ncols q - 1 + 0) (q_ncols q)); [|lia].
        replace (q_ncols q - 1 + 0)%nat with (q_start q) by lia. rewrite Nat.eqb_refl. reflexivity.
    - assert (Hoff' : (S off < q_ncols q)%nat) by lia.
      rewrite (mod_add_small (S off) _ _ Hoff' Hs).
      destruct (Nat.ltb_spec (q_start q + 1) (q_ncols q)).
      + replace (off + (q_start q + 1))%nat with (S off + q_start q)%nat by lia.
        destruct (Nat.ltb_spec (S off + q_start q) (q_ncols q));
          (destruct (Nat.eqb_spec (q_start q) (S off + q_start q)); [lia|]);
          try reflexivity.
        destruct (Nat.eqb_spec (q_start q) (S off + q_start q - q_ncols q)); [lia|reflexivity].
      + assert (q_start q = q_ncols q - 1)%nat by lia.
        destruct (Nat.ltb_spec (off + 0) (q_ncols q)); [|lia].
        destruct (Nat.ltb_spec (S off + q_start q) (q_ncols q)); [lia|].
        replace (S off + q_start q - q_ncols q)%nat with off by lia.
        replace (off + 0)%nat with off by lia.
        destruct (Nat.eqb_spec (q_start q) off); [lia|reflexivity].
  Qed.

  Lemma advance_preserves (q : queue) :
    q_ncols (q_advance q) = q_ncols q /\ q_dt (q_advance q) = q_dt q /\
    q_next (q_advance q) = fadd A (q_next q) (q_dt q) /\
    length (q_cells (q_advance q)) = length (q_cells q).
  Proof. unfold Queue.q_advance; simpl. rewrite map_length. auto. Qed.

  Lemma pending_make nrx ncols dt t off r : q_pending (q_make A mzero nrx ncols dt t) off r = mzero.
  Proof.
    unfold Queue.q_pending, q_make; simpl.
    destruct (Nat.ltb_spec r nrx) as [H|H].
    - rewrite (nth_indep _ [] (repeat mzero ncols)) by (rewrite repeat_length; auto).
      rewrite nth_repeat. apply nth_repeat.
    - rewrite (nth_overflow (repeat _ nrx)) by (rewrite repeat_length; auto). destruct (q_slot _ off); reflexivity.
  Qed.
End QP.
