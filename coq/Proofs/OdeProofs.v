(* C04: the closed forms used as references ARE solutions of the rate equations that the model of
   the current source defines (Builder.derivative over Propensity.prop_eval), for all positive
   parameters and all initial values. *)
From Coq Require Import ZArith Reals List Bool Lra Lia.
From Coquelicot Require Import Coquelicot.
From BS Require Import Base.Arith Model.Term Model.Propensity Model.Interface Model.Builder.
Import ListNotations.
Local Open Scope R_scope.

(* birth-death: 0 -> X (rate k), X -> 0 (rate g x) *)
Definition bd_sim (k g : R) : simif R :=
  mkSim [PConst 0%nat; PUni 1%nat 0%nat] [[1; -1]%Z] [[0; 0]%Z] [k; g] 1.
Definition bd_phi (k g x0 t : R) : R := k / g + (x0 - k / g) * exp (- g * t).

Lemma bd_rhs k g x t : derivative ArithR (bd_sim k g) [x] t = [k - g * x].
Proof. unfold derivative, prep, prep_row, compute_plain, bd_sim. simpl. unfold getv. simpl. f_equal. lra. Qed.

Theorem birth_death_solves k g x0 : g <> 0 ->
  bd_phi k g x0 0 = x0 /\
  forall t, is_derive (bd_phi k g x0) t (nth 0 (derivative ArithR (bd_sim k g) [bd_phi k g x0 t] t) 0).
Proof.
  intros Hg. split.
  - unfold bd_phi. rewrite Rmult_0_r, exp_0. lra.
  - intros t. rewrite bd_rhs. simpl. unfold bd_phi. auto_derive; auto. field. exact Hg.
Qed.

(* reversible conversion A <-> B (rates a, b): total conserved *)
Definition ab_sim (a b : R) : simif R :=
  mkSim [PUni 0%nat 0%nat; PUni 1%nat 1%nat] [[-1; 1]%Z; [1; -1]%Z] [[0; 0]%Z; [0; 0]%Z] [a; b] 2.
Definition ab_A (a b A0 B0 t : R) : R := b * (A0 + B0) / (a + b) + (A0 - b * (A0 + B0) / (a + b)) * exp (- (a + b) * t).
Definition ab_B (a b A0 B0 t : R) : R := (A0 + B0) - ab_A a b A0 B0 t.

Lemma ab_rhs a b x y t : derivative ArithR (ab_sim a b) [x; y] t = [- (a * x) + b * y; a * x - b * y].
Proof. unfold derivative, prep, prep_row, compute_plain, ab_sim. simpl. unfold getv. simpl. f_equal; [lra|f_equal; lra]. Qed.

Theorem reversible_solves a b A0 B0 : a + b <> 0 ->
  ab_A a b A0 B0 0 = A0 /\ ab_B a b A0 B0 0 = B0 /\
  forall t, let rhs := derivative ArithR (ab_sim a b) [ab_A a b A0 B0 t; ab_B a b A0 B0 t] t in
            is_derive (ab_A a b A0 B0) t (nth 0 rhs 0) /\ is_derive (ab_B a b A0 B0) t (nth 1 rhs 0).
Proof.
  intros H. assert (E0 : ab_A a b A0 B0 0 = A0) by (unfold ab_A; rewrite Rmult_0_r, exp_0; field; exact H).
  split; [exact E0|]. split; [unfold ab_B; rewrite E0; lra|].
  intros t. cbv zeta. rewrite ab_rhs. simpl. split.
  - unfold ab_B, ab_A. auto_derive; auto. field. exact H.
  - unfold ab_B, ab_A. auto_derive; auto. field. exact H.
Qed.

(* dimerisation 2A -> B (rate k A^2), through the bimolecular class *)
Definition dim_sim (k : R) : simif R :=
  mkSim [PBi 0%nat 0%nat 0%nat] [[-2]%Z; [1]%Z] [[0]%Z; [0]%Z] [k] 2.
Definition dim_A (k A0 t : R) : R := A0 / (1 + 2 * k * A0 * t).

Lemma dim_rhs k x y t : derivative ArithR (dim_sim k) [x; y] t = [k * x * x * -2; k * x * x * 1].
Proof. unfold derivative, prep, prep_row, compute_plain, dim_sim. simpl. unfold getv, pymax. simpl. f_equal; [lra|f_equal; lra]. Qed.

Theorem dimerisation_solves k A0 : 0 <= k -> 0 <= A0 ->
  dim_A k A0 0 = A0 /\
  forall t, 0 <= t -> is_derive (dim_A k A0) t (nth 0 (derivative ArithR (dim_sim k) [dim_A k A0 t; 0] t) 0).
Proof.
  intros Hk HA. split; [unfold dim_A; rewrite Rmult_0_r; field; lra|].
  intros t Ht. rewrite dim_rhs. simpl. unfold dim_A.
  assert (Hpos : 0 < 1 + 2 * k * A0 * t).
  { assert (0 <= 2 * k * A0 * t) by (repeat apply Rmult_le_pos; lra). lra. }
  auto_derive; [lra|]. field. lra.
Qed.

(* time-dependent production 0 -> X with rate k * exp(-a t) (general propensity reading t) *)
Definition td_sim (k a : R) : simif R :=
  mkSim [PGeneral (TProd [TParam 0%nat; TExp (TProd [TConst (-1); TParam 1%nat; TTime])])] [[1]%Z] [[0]%Z] [k; a] 1.
Definition td_phi (k a x0 t : R) : R := x0 + k / a * (1 - exp (- a * t)).
Lemma td_rhs k a x t : derivative ArithR (td_sim k a) [x] t = [k * exp (- a * t)].
Proof. unfold derivative, prep, prep_row, compute_plain, td_sim. simpl. unfold getv. simpl. f_equal. replace (1 * -1 * a * t) with (- a * t) by lra. lra. Qed.
Theorem time_dependent_solves k a x0 : a <> 0 ->
  td_phi k a x0 0 = x0 /\ forall t, is_derive (td_phi k a x0) t (nth 0 (derivative ArithR (td_sim k a) [td_phi k a x0 t] t) 0).
Proof.
  intros Ha. split; [unfold td_phi; rewrite Rmult_0_r, exp_0; lra|].
  intros t. rewrite td_rhs. simpl. unfold td_phi. auto_derive; auto. field. exact Ha.
Qed.
