(* C19: the two daughters a recorded cell lists come from ONE partition of its last reported state: they are the single-cell
   simulations of the first and the second cell which its splitter made in one call (any arithmetic, stream, model, fuel). *)
From Coq Require Import ZArith List Bool Lia Arith.
From BS Require Import Base.Arith Model.Term Model.Propensity Model.Interface Model.Rules Model.Random Model.Queue Model.SSA Model.Splitters Model.Lineage Model.Worklist
  Proofs.ListLemmas Proofs.WorklistProofs Proofs.WorklistProvenance.
Import ListNotations.

Section Pairs.
  Context {F : Type} (A : Arith F) (pi2 : F) (eps9 eps7 eps12 : F).
  Notation schn := (schnitz F).

  Definition pair_born (fuel : nat) (l : lin F) (sps : list (splitter F)) (ts : list F) (u : nat -> F) (L : list schn) (m : schn) (a b : nat) : Prop :=
    exists tts0 st0 sp upos pos1 pos2 st1 st2 sa sb,
      data_of m tts0 st0 /\
      let c := final_cell A tts0 st0 in
      let tts := truncate_lt A ts (cs_time c) in
      (0 <= cs_divided c)%Z /\ nth_error sps (Z.to_nat (cs_divided c)) = Some sp /\
      nth_error L a = Some sa /\ nth_error L b = Some sb /\
      cell_simulate A pi2 eps9 eps7 fuel l tts (fst (daughter_cells A c sp u upos)) u pos1 = Done st1 /\
      cell_simulate A pi2 eps9 eps7 fuel l tts (snd (daughter_cells A c sp u upos)) u pos2 = Done st2 /\
      data_of sa tts st1 /\ data_of sb tts st2.

  Definition pairs_ok fuel l sps ts u (L : list schn) : Prop :=
    forall p m a b, nth_error L p = Some m -> sz_daughters m = Some (a, b) -> pair_born fuel l sps ts u L m a b.

  Lemma pair_born_ext fuel l sps ts u L L' m m' a b : ext L L' -> same_data m m' -> pair_born fuel l sps ts u L m a b -> pair_born fuel l sps ts u L' m' a b.
  Proof.
    intros He Hs (tts0 & st0 & sp & upos & pos1 & pos2 & st1 & st2 & sa & sb & Dm & Hdiv & Hsp & Ha & Hb & H1 & H2 & Da & Db).
    destruct (He a sa Ha) as (sa' & Ha' & Sa). destruct (He b sb Hb) as (sb' & Hb' & Sb).
    exists tts0, st0, sp, upos, pos1, pos2, st1, st2, sa', sb'.
    split; [eapply data_of_same; eauto|]. cbv zeta. split; [exact Hdiv|]. split; [exact Hsp|]. split; [exact Ha'|]. split; [exact Hb'|].
    split; [exact H1|]. split; [exact H2|]. split; eapply data_of_same; eauto.
  Qed.

  (* entries of set_daughters (L ++ [s1; s2]) sid d, with their daughters field *)
  Lemma set_daughters_entry (L : list schn) s1 s2 sid d j sj : (sid < length L)%nat ->
    nth_error (set_daughters (L ++ [s1; s2]) sid d) j = Some sj ->
    (j = sid /\ sz_daughters sj = Some d /\ exists s0, nth_error L sid = Some s0 /\ same_data s0 sj) \/
    (j <> sid /\ (nth_error L j = Some sj \/ (j = length L /\ sj = s1) \/ (j = S (length L) /\ sj = s2))).
  Proof.
    intros Hsid Hj. unfold set_daughters in Hj.
    destruct (nth_error (L ++ [s1; s2]) sid) as [m|] eqn:Em.
    - rewrite nth_error_app1 in Em by exact Hsid.
      destruct (Nat.eq_dec sid j) as [->|Hne].
      + rewrite nth_error_upd_same in Hj by (rewrite app_length; lia). inversion Hj; subst sj. left. split; [reflexivity|]. split; [reflexivity|].
        exists m. split; [exact Em|repeat split].
      + rewrite nth_error_upd_other in Hj by exact Hne. right. split; [auto|]. rewrite nth_error_two in Hj.
        destruct (Nat.ltb_spec j (length L)); [left; exact Hj|].
        destruct (Nat.eqb_spec j (length L)); [right; left; inversion Hj; auto|].
        destruct (Nat.eqb_spec j (S (length L))); [right; right; inversion Hj; auto|discriminate].
    - apply nth_error_None in Em. rewrite app_length in Em. cbn in Em. lia.
  Qed.

  Lemma wl_step_pairs fuel l sps ts final u item w w' idx :
    links_inv (w_lineage w) (w_queue w) idx -> queue_prov A (w_lineage w) (w_queue w) -> pairs_ok fuel l sps ts u (w_lineage w) ->
    nth_error (w_queue w) idx = Some item ->
    wl_step A pi2 eps9 eps7 eps12 fuel l sps ts final u item w = Done w' -> pairs_ok fuel l sps ts u (w_lineage w').
  Proof.
    intros Hlinks Hq Hp Hidx H. unfold wl_step in H. destruct item as [sid c].
    destruct (fleb A (fsub A final eps9) (cs_time c)); [inversion H; subst; auto|].
    destruct (0 <=? cs_dead c)%Z; [inversion H; subst; auto|].
    destruct (0 <=? cs_divided c)%Z eqn:Ediv; [|inversion H; subst; auto].
    destruct (feqb A (cs_t0 c) (cs_time c)); [discriminate|].
    destruct (nth_error sps (Z.to_nat (cs_divided c))) as [sp|] eqn:Esp; [|discriminate].
    set (dd := partition_lineage A (sp_vmode sp) (sp_perfect sp) (sp_binomial sp) (sp_noise sp) (cs_x c) (cs_V c) u (w_pos w)) in *.
    set (tts := truncate_lt A ts (cs_time c)) in *.
    set (d1 := mkCell (cs_time c) (cs_time c) (d_vol dd) (d_vol dd) (d_state dd) (-1)%Z (-1)%Z) in *.
    set (d2 := mkCell (cs_time c) (cs_time c) (e_vol dd) (e_vol dd) (e_state dd) (-1)%Z (-1)%Z) in *.
    destruct (cell_simulate A pi2 eps9 eps7 fuel l tts d1 u (d_pos dd)) as [st1| |k1] eqn:E1; try discriminate.
    destruct (cell_simulate A pi2 eps9 eps7 fuel l tts d2 u (ls_pos st1)) as [st2| |k2] eqn:E2; try discriminate.
    inversion H; subst w'; clear H. cbn [w_lineage].
    destruct (Hq idx sid c Hidx) as (m & tts0 & st0 & Hm & Dm & Ec).
    assert (Hsid : (sid < length (w_lineage w))%nat) by (apply nth_error_Some; congruence).
    set (L := w_lineage w) in *. set (s1 := schnitz_of tts st1 (Some sid)). set (s2 := schnitz_of tts st2 (Some sid)).
    set (L' := set_daughters (L ++ [s1; s2]) sid (length L, S (length L))).
    assert (Hext : ext L L') by apply ext_set_daughters.
    destruct (set_daughters_new L s1 s2 sid (length L, S (length L)) Hsid) as (Hn1 & Hn2). fold L' in Hn1, Hn2.
    (* the entry being processed had no daughters before *)
    assert (Hnone : sz_daughters m = None).
    { destruct Hlinks as (_ & _ & _ & _ & Hq3). eapply (Hq3 idx sid c m); eauto. }
    intros p mp a b Hpn Hda.
    destruct (set_daughters_entry L s1 s2 sid _ p mp Hsid Hpn) as [(-> & Hd & s0 & E0 & S0)|(Hne & [Hold|[(-> & ->)|(-> & ->)]])].
    - (* the mother that has just divided *)
      rewrite Hd in Hda. inversion Hda; subst a b. rewrite Hm in E0. inversion E0; subst s0.
      exists tts0, st0, sp, (w_pos w), (d_pos dd), (ls_pos st1), st1, st2, s1, s2.
      split; [eapply data_of_same; eauto|]. cbv zeta. rewrite <- Ec. fold tts.
      split; [apply Z.leb_le; exact Ediv|]. split; [exact Esp|]. split; [exact Hn1|]. split; [exact Hn2|].
      unfold daughter_cells. cbn [fst snd]. fold dd. fold d1. fold d2.
      split; [exact E1|]. split; [exact E2|]. split; repeat split.
    - (* an older mother: untouched *)
      eapply pair_born_ext; [exact Hext|apply same_data_refl|]. eapply Hp; eauto.
    - cbn in Hda. discriminate.
    - cbn in Hda. discriminate.
  Qed.
  Definition all_inv fuel l sps ts u (w : wstate (F:=F)) (idx : nat) : Prop :=
    links_inv (w_lineage w) (w_queue w) idx /\ prov_inv A pi2 eps9 eps7 fuel l sps ts u w /\ pairs_ok fuel l sps ts u (w_lineage w).

  Lemma wl_loop_pairs cfuel fuel l sps ts final u : forall idx w w',
    all_inv fuel l sps ts u w idx -> wl_loop A pi2 eps9 eps7 eps12 cfuel fuel l sps ts final u idx w = Done w' ->
    pairs_ok fuel l sps ts u (w_lineage w').
  Proof.
    induction cfuel as [|cfuel IH]; intros idx w w' (Hl & Hpv & Hp) H; simpl in H.
    - destruct (nth_error (w_queue w) idx); [discriminate|]. inversion H; subst. exact Hp.
    - destruct (nth_error (w_queue w) idx) as [item|] eqn:E; [|inversion H; subst; exact Hp].
      destruct (wl_step A pi2 eps9 eps7 eps12 fuel l sps ts final u item w) as [w1| |k] eqn:Es; try discriminate.
      eapply (IH (S idx) w1 w'); [|exact H]. split; [|split].
      + eapply wl_step_inv; eauto.
      + eapply wl_step_prov; eauto.
      + eapply wl_step_pairs; eauto. exact (proj2 Hpv).
  Qed.

  Lemma sim_initial_pairs fuel l sps ts u : forall cells w w',
    pairs_ok fuel l sps ts u (w_lineage w) -> sim_initial A pi2 eps9 eps7 fuel l ts cells u w = Done w' -> pairs_ok fuel l sps ts u (w_lineage w').
  Proof.
    induction cells as [|c cells IH]; intros w w' Hp H; simpl in H; [inversion H; subst; auto|].
    destruct (cell_simulate A pi2 eps9 eps7 fuel l ts c u (w_pos w)) as [st| |k]; try discriminate.
    apply IH in H; auto. cbn [w_lineage]. intros p m a b Hpn Hda.
    destruct (Nat.lt_ge_cases p (length (w_lineage w))) as [Hlt|Hge].
    - rewrite nth_error_app1 in Hpn by auto. eapply pair_born_ext; [apply ext_app|apply same_data_refl|]. eapply Hp; eauto.
    - rewrite nth_error_app2 in Hpn by auto. destruct (p - length (w_lineage w))%nat as [|k]; cbn in Hpn; [inversion Hpn; subst; discriminate|destruct k; discriminate].
  Qed.

  (* whole lineage: the two daughters every recorded cell lists are the simulations of the two halves of ONE partition of its last
     reported state, both on the part of the grid from its last reported time on *)
  Theorem lineage_pairs_born cfuel fuel l sps ts cells u pos w :
    simulate_lineage A pi2 eps9 eps7 eps12 cfuel fuel l sps ts cells u pos = Done w -> pairs_ok fuel l sps ts u (w_lineage w).
  Proof.
    unfold simulate_lineage. destruct (sim_initial A pi2 eps9 eps7 fuel l ts cells u (mkW [] [] pos)) as [w0| |k] eqn:E0; try discriminate.
    intros H.
    assert (Hl0 : links_inv (w_lineage (mkW (F:=F) [] [] pos)) (w_queue (mkW (F:=F) [] [] pos)) 0).
    { cbn. split; [|split; [|split; [|split]]].
      - intros j s0 p Hj. destruct j; discriminate.
      - intros p sp a b Hp. destruct p; discriminate.
      - intros i sid c Hi. destruct i; discriminate.
      - constructor.
      - intros i sid c s0 _ Hi. destruct i; discriminate. }
    assert (Hv0 : prov_inv A pi2 eps9 eps7 fuel l sps ts u (mkW (F:=F) [] [] pos)).
    { split; [intros j s p Hj; destruct j; discriminate|intros i sid c Hi; destruct i; discriminate]. }
    assert (Hp0 : pairs_ok fuel l sps ts u (w_lineage (mkW (F:=F) [] [] pos))) by (intros p m a b Hp; destruct p; discriminate).
    apply (wl_loop_pairs cfuel fuel l sps ts (last ts (f0 A)) u 0 w0 w); [|exact H]. split; [|split].
    - eapply sim_initial_inv; eauto.
    - eapply sim_initial_prov; eauto.
    - eapply sim_initial_pairs; eauto.
  Qed.
End Pairs.
