(* Hand model of lineage/lineage.pyx : LineageSSASimulator.SimulateCellLineage (simulate_cell_list,
   simulate_daughter_cells, the worklist over old_cell_states / old_schnitzes), get_final_cell_state, the single-cell
   entry for grids of one point, and LineageCSimInterface.partition's choice of splitter. *)
From Coq Require Import ZArith List Bool.
From BS Require Import Base.Arith Model.Term Model.Propensity Model.Interface Model.Rules Model.Random Model.Queue Model.SSA Model.Splitters Model.Lineage.
Import ListNotations.

Record splitter (F : Type) := mkSplitter { sp_vmode : nat; sp_perfect : list nat; sp_binomial : list nat; sp_noise : F }.
Arguments mkSplitter {F}. Arguments sp_vmode {F}. Arguments sp_perfect {F}. Arguments sp_binomial {F}. Arguments sp_noise {F}.

Record cellstate (F : Type) := mkCell {
  cs_time : F; cs_t0 : F; cs_V : F; cs_V0 : F; cs_x : list F; cs_divided : Z; cs_dead : Z }.
Arguments mkCell {F}. Arguments cs_time {F}. Arguments cs_t0 {F}. Arguments cs_V {F}. Arguments cs_V0 {F}.
Arguments cs_x {F}. Arguments cs_divided {F}. Arguments cs_dead {F}.

Record schnitz (F : Type) := mkSchnitz {
  sz_times : list F; sz_rows : list (list F); sz_vols : list F; sz_parent : option nat; sz_daughters : option (nat * nat) }.
Arguments mkSchnitz {F}. Arguments sz_times {F}. Arguments sz_rows {F}. Arguments sz_vols {F}. Arguments sz_parent {F}. Arguments sz_daughters {F}.

Section Worklist.
  Context {F : Type} (A : Arith F) (pi2 : F).
  Variables eps9 eps7 eps12 : F.     (* 1E-9, 10e-8, 1E-12 *)

  (* SimulateSingleCell(v, timepoints, mode = 1) for grids of one point or more *)
  Definition cell_simulate (fuel : nat) (l : lin F) (ts : list F) (c : cellstate F) (u : nat -> F) (pos : nat) : outcome (lstate (F:=F)) :=
    match ts with
    | [] => Fault 6
    | [t] =>
        if fleb A t (cs_t0 c) then
          (* "v.get_initial_time() >= timepoints[0]": the current state is returned as the only row *)
          Done (mkLst (cs_time c) [] (cs_x c) (si_params (sm_if (ln_sim l))) true pos [cs_x c] [cs_V c] t (cs_V c) (-1)%Z (-1)%Z true)
        else
          match lssa_loop A pi2 eps9 eps7 fuel l (fsub A t (cs_time c)) t (cs_t0 c) (cs_V0 c) u
                  (mkLst (cs_time c) ts (cs_x c) (si_params (sm_if (ln_sim l))) true pos [] [] t (cs_V c) (-1)%Z (-1)%Z false) with
          | Done st => Done (lssa_finish A st)
          | OutOfFuel => OutOfFuel | Fault w => Fault w
          end
    | _ => lssa_simulate A pi2 eps9 eps7 fuel l ts (cs_time c) (cs_t0 c) (cs_V c) (cs_V0 c) (cs_x c) u pos
    end.

  (* SingleCellSSAResult.get_final_cell_state: last reported row; "birth" time and volume = first reported ones *)
  Definition final_cell (ts : list F) (st : lstate (F:=F)) : cellstate F :=
    let n := length (ls_rows st) in
    mkCell (nth (n - 1) ts (f0 A)) (nth 0 ts (f0 A)) (last (ls_vols st) (f0 A)) (nth 0 (ls_vols st) (f0 A))
           (last (ls_rows st) []) (ls_divided st) (ls_dead st).
  Definition schnitz_of (ts : list F) (st : lstate (F:=F)) (parent : option nat) : schnitz F :=
    mkSchnitz (firstn (length (ls_rows st)) ts) (ls_rows st) (ls_vols st) parent None.

  (* truncate_timepoints_less_than *)
  Fixpoint truncate_lt (ts : list F) (v : F) : list F :=
    match ts with [] => [] | t :: rest => if fleb A v t then ts else truncate_lt rest v end.

  Definition set_daughters (lin : list (schnitz F)) (i : nat) (d : nat * nat) : list (schnitz F) :=
    match nth_error lin i with
    | Some s => upd lin i (mkSchnitz (sz_times s) (sz_rows s) (sz_vols s) (sz_parent s) (Some d))
    | None => lin
    end.

  Record wstate := mkW { w_queue : list (nat * cellstate F);   (* old_schnitzes (as lineage ids) zipped with old_cell_states *)
                         w_lineage : list (schnitz F); w_pos : nat }.

  (* simulate_cell_list *)
  Fixpoint sim_initial (fuel : nat) (l : lin F) (ts : list F) (cells : list (cellstate F)) (u : nat -> F) (w : wstate) : outcome wstate :=
    match cells with
    | [] => Done w
    | c :: rest =>
      match cell_simulate fuel l ts c u (w_pos w) with
      | Done st =>
        let id := length (w_lineage w) in
        sim_initial fuel l ts rest u (mkW (w_queue w ++ [(id, final_cell ts st)]) (w_lineage w ++ [schnitz_of ts st None]) (ls_pos st))
      | OutOfFuel => OutOfFuel | Fault k => Fault k
      end
    end.

  (* one pass of the while loop over old_cell_states *)
  Definition wl_step (fuel : nat) (l : lin F) (splitters : list (splitter F)) (ts : list F) (final : F) (u : nat -> F)
             (item : nat * cellstate F) (w : wstate) : outcome wstate :=
    let '(sid, c) := item in
    if fleb A (fsub A final eps9) (cs_time c) then Done w
    else if (0 <=? cs_dead c)%Z then Done w
    else if (0 <=? cs_divided c)%Z then
      if feqb A (cs_t0 c) (cs_time c) then Fault 7          (* "Cells are dividing too fast" *)
      else
      match nth_error splitters (Z.to_nat (cs_divided c)) with
      | None => Fault 8
      | Some sp =>
        let dd := partition_lineage A (sp_vmode sp) (sp_perfect sp) (sp_binomial sp) (sp_noise sp) (cs_x c) (cs_V c) u (w_pos w) in
        let d1 := mkCell (cs_time c) (cs_time c) (d_vol dd) (d_vol dd) (d_state dd) (-1)%Z (-1)%Z in
        let d2 := mkCell (cs_time c) (cs_time c) (e_vol dd) (e_vol dd) (e_state dd) (-1)%Z (-1)%Z in
        let tts := truncate_lt ts (cs_time c) in
        match cell_simulate fuel l tts d1 u (d_pos dd) with
        | Done st1 =>
          match cell_simulate fuel l tts d2 u (ls_pos st1) with
          | Done st2 =>
            let id1 := length (w_lineage w) in let id2 := S id1 in
            let f1' := final_cell tts st1 in let f2' := final_cell tts st2 in
            let q1 := if fltb A (cs_time f1') (fadd A final eps12) then [(id1, f1')] else [] in
            let q2 := if fltb A (cs_time f2') (fadd A final eps12) then [(id2, f2')] else [] in
            Done (mkW (w_queue w ++ q1 ++ q2)
                      (set_daughters (w_lineage w ++ [schnitz_of tts st1 (Some sid); schnitz_of tts st2 (Some sid)]) sid (id1, id2))
                      (ls_pos st2))
          | OutOfFuel => OutOfFuel | Fault k => Fault k
          end
        | OutOfFuel => OutOfFuel | Fault k => Fault k
        end
      end
    else Done w.

  Fixpoint wl_loop (cfuel fuel : nat) (l : lin F) (splitters : list (splitter F)) (ts : list F) (final : F) (u : nat -> F)
           (idx : nat) (w : wstate) : outcome wstate :=
    match nth_error (w_queue w) idx with
    | None => Done w
    | Some item =>
      match cfuel with
      | O => OutOfFuel
      | S cfuel' =>
        match wl_step fuel l splitters ts final u item w with
        | Done w' => wl_loop cfuel' fuel l splitters ts final u (S idx) w'
        | OutOfFuel => OutOfFuel | Fault k => Fault k
        end
      end
    end.

  Definition simulate_lineage (cfuel fuel : nat) (l : lin F) (splitters : list (splitter F)) (ts : list F)
             (cells : list (cellstate F)) (u : nat -> F) (pos : nat) : outcome wstate :=
    match sim_initial fuel l ts cells u (mkW [] [] pos) with
    | Done w => wl_loop cfuel fuel l splitters ts (last ts (f0 A)) u 0 w
    | OutOfFuel => OutOfFuel | Fault k => Fault k
    end.
End Worklist.
