(* Hand model of the Rule classes of types.pyx and of apply_repeated_rules. *)
From Coq Require Import ZArith List Bool.
From BS Require Import Base.Arith Model.Term.
Import ListNotations.

Inductive rule_kind (F : Type) :=
| RAdditive (srcs : list nat)                       (* dest (species) = sum of species *)
| RAssign (param_flag : bool) (rhs : term F)        (* dest = rhs *)
| ROde (param_flag : bool) (rhs : term F).          (* dest = dest + rhs * dt *)
Arguments RAdditive {F}. Arguments RAssign {F}. Arguments ROde {F}.

Record rule (F : Type) := mkRule { ru_freq : F; ru_dest : nat; ru_kind : rule_kind F }.
Arguments mkRule {F}. Arguments ru_freq {F}. Arguments ru_dest {F}. Arguments ru_kind {F}.

Section Rules.
  Context {F : Type} (A : Arith F).

  (* set_frequency_flag: repeat = -1, dt = -2, start = 0, a time t >= 0 = t *)
  Definition fires (r : rule F) (time : F) (rule_step : bool) : bool :=
    feqb A (ru_freq r) (fofZ A (-1)) || feqb A (ru_freq r) time
    || (rule_step && feqb A (ru_freq r) (fofZ A (-2))).

  Definition rule_operation (r : rule F) (vol : option F) (x p : list F) (time dt : F) : list F * list F :=
    match ru_kind r with
    | RAdditive srcs =>
        (upd x (ru_dest r) (fold_left (fun acc i => fadd A acc (getv A x i)) srcs (f0 A)), p)
    | RAssign pf rhs =>
        let v := teval A vol x p time rhs in
        if pf then (x, upd p (ru_dest r) v) else (upd x (ru_dest r) v, p)
    | ROde pf rhs =>
        let v := teval A vol x p time rhs in
        if pf then (x, upd p (ru_dest r) (fadd A (getv A p (ru_dest r)) (fmul A v dt)))
        else (upd x (ru_dest r) (fadd A (getv A x (ru_dest r)) (fmul A v dt)), p)
    end.

  Definition execute_rule (r : rule F) (vol : option F) (xp : list F * list F) (time dt : F) (rule_step : bool) :=
    if fires r time rule_step then rule_operation r vol (fst xp) (snd xp) time dt else xp.

  (* apply_repeated_rules / apply_repeated_volume_rules: declaration order *)
  Definition apply_rules (rules : list (rule F)) (vol : option F) (xp : list F * list F) (time dt : F) (rule_step : bool) :=
    fold_left (fun acc r => execute_rule r vol acc time dt rule_step) rules xp.
End Rules.
