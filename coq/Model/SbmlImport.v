(* Hand model of sbmlutil.py import logic on the abstract document libsbml gives access to:
   initial values (amount / concentration precedence), expansion of integer stoichiometries into
   repeated names, and the rule loop (assignment rules -> repeated assignment rules; rate rules ->
   zero-reactant reactions), with the loop variables reset per rule. *)
From Coq Require Import ZArith List Bool.
From BS Require Import Base.Arith.
Import ListNotations.

Section Import.
  Context {F : Type} (A : Arith F).

  (* import_sbml_species: v = 0; if isfinite(amount): v = amount; if isfinite(conc) and v == 0: v = conc *)
  Definition initial_value (amount conc : option F) : F :=    (* None = not finite (unset = NaN) *)
    let v := match amount with Some a => a | None => f0 A end in
    match conc with
    | Some c => if feqb A v (f0 A) then c else v
    | None => v
    end.

  (* for i in range(int(stoichiometry)): list.append(species) *)
  Definition expand (side : list (nat * nat)) : list nat := flat_map (fun sn => repeat (fst sn) (snd sn)) side.
End Import.

Inductive srule_kind := RkAssignment | RkRate | RkAlgebraic.
Record srule := mkSRule { sr_kind : srule_kind; sr_var : nat; sr_formula : nat; sr_var_known : bool }.
Inductive emitted := EmitAssign (var formula : nat) | EmitRateReaction (var formula : nat).

(* one pass of the loop body; returns the rules and reactions appended by this rule *)
Definition import_rule (r : srule) : list emitted * list emitted :=
  if negb (sr_var_known r) then ([], [])                     (* "not a parameter or species": continue *)
  else match sr_kind r with
       | RkAlgebraic => ([], [])                             (* unsupported: continue *)
       | RkAssignment => ([EmitAssign (sr_var r) (sr_formula r)], [])
       | RkRate => ([], [EmitRateReaction (sr_var r) (sr_formula r)])
       end.
Definition import_rules (rs : list srule) : list emitted * list emitted :=
  fold_left (fun acc r => let '(a, b) := import_rule r in (fst acc ++ a, snd acc ++ b)) rs ([], []).
