(* Hand model of bioscrape/pid_interfaces.py : PIDInterface.check_prior and the seven prior
   functions (operation order of the code), with scipy.special.gamma / beta and the constant pi
   as parameters.  Reject = the code returns np.inf (the posterior is then -inf). *)
From Coq Require Import ZArith List Bool.
From BS Require Import Base.Arith.
Import ListNotations.

Inductive prior (F : Type) :=
| PrUniform (lb ub : F) | PrGaussian (mu sigma : F) | PrExponential (lam : F)
| PrGamma (a b : F) | PrBeta (a b : F) | PrLogUniform (lb ub : F) | PrLogGaussian (mu sigma : F).
Arguments PrUniform {F}. Arguments PrGaussian {F}. Arguments PrExponential {F}. Arguments PrGamma {F}.
Arguments PrBeta {F}. Arguments PrLogUniform {F}. Arguments PrLogGaussian {F}.

Inductive pres (F : Type) := Reject | Raise | Val (v : F).
Arguments Reject {F}. Arguments Raise {F}. Arguments Val {F}.

Section Priors.
  Context {F : Type} (A : Arith F) (pi_ : F) (G : F -> F) (B : F -> F -> F).
  Notation "a + b" := (fadd A a b). Notation "a * b" := (fmul A a b).
  Notation "a / b" := (fdiv A a b). Notation "a - b" := (fsub A a b).
  Notation one := (fofZ A 1). Notation zero := (fofZ A 0). Notation two := (fofZ A 2).
  Definition fhalf : F := one / two.
  Definition sqr (y : F) : F := y * y.                     (* y**2 *)
  Definition sqrt2pi : F := fsqrt A (two * pi_).

  (* "if prob < 0: warn, return np.inf else return np.log(prob)" *)
  Definition log_or_reject (prob : F) : pres F :=
    if fltb A prob zero then Reject else Val (flog A prob).

  Definition prior_eval (pr : prior F) (x : F) : pres F :=
    match pr with
    | PrUniform lb ub =>
        if fltb A ub x || fltb A x lb then Reject else Val (flog A (one / (ub - lb)))
    | PrGaussian mu sigma =>
        if fltb A sigma zero then Raise
        else log_or_reject (one / (sqrt2pi * sigma) * fexp A (fneg A fhalf * sqr (x - mu) / sqr sigma))
    | PrExponential lam =>
        if fltb A x zero then Reject else log_or_reject (lam * fexp A (fneg A lam * x))
    | PrGamma a b =>
        if fltb A x zero then Reject
        else log_or_reject (fpow A b a / G a * fpow A x (a - one) * fexp A (fneg A one * b * x))
    | PrBeta a b =>
        if fltb A x zero || fltb A one x then Reject
        else log_or_reject (fpow A x (a - one) * fpow A (one - x) (b - one) / B a b)
    | PrLogUniform lb ub =>
        if fltb A lb zero || fltb A ub zero then Raise
        else if fltb A ub x || fltb A x lb then Reject
        else log_or_reject (one / (x * (flog A ub - flog A lb)))
    | PrLogGaussian mu sigma =>
        if fltb A sigma zero then Raise
        else log_or_reject (one / (x * sqrt2pi * sigma) * fexp A (fneg A fhalf * sqr (flog A x - mu) / sqr sigma))
    end.

  (* check_prior over the parameter dictionary: (positive flag, prior, value) per parameter;
     np.inf is absorbing for the running sum; get_likelihood_function maps a non-finite lp to -inf *)
  Fixpoint check_prior (l : list (bool * prior F * F)) (lp : F) : pres F :=
    match l with
    | [] => Val lp
    | (positive, pr, x) :: rest =>
        if positive && fltb A x zero then Reject
        else match prior_eval pr x with
             | Reject => (* lp += inf; later terms cannot make it finite again unless they are -inf/nan: non-finite either way *)
                         match check_prior rest lp with Raise => Raise | _ => Reject end
             | Raise => Raise
             | Val v => check_prior rest (lp + v)
             end
    end.

  (* the log-prior term used by get_likelihood_function: None = posterior is -inf *)
  Definition log_prior (l : list (bool * prior F * F)) : option (option F) :=
    match check_prior l zero with
    | Raise => None
    | Reject => Some None
    | Val v => Some (if ffinite A v then Some v else None)
    end.
End Priors.
