(* Hand model of types.pyx : sympy_recursion (translation of a parsed sympy tree into Term nodes,
   with the name rule) and sympy_species_and_parameters.  The sympy parser itself is not modelled:
   the tree it built is the input. *)
From Coq Require Import ZArith List Bool.
From BS Require Import Base.Arith Model.Term.
Import ListNotations.

(* names are identifiers; a Symbol carries whether its spelling starts with '_' and the
   identifier of the spelling without that underscore *)
Inductive stree (F : Type) : Type :=
| SSymbol (underscore : bool) (name_stripped : nat) (name_full : nat)
| SAdd (args : list (stree F)) | SMul (args : list (stree F))
| SPow (b e : stree F) | SExp (a : stree F) | SLog (a : stree F) | SHeaviside (a : stree F) | SAbs (a : stree F)
| SMax (args : list (stree F)) | SMin (args : list (stree F))
| SNumber (v : F)                 (* anything else whose evalf() is a float *)
| SOther.                         (* anything else: float(tree.evalf()) fails *)
Arguments SSymbol {F}. Arguments SAdd {F}. Arguments SMul {F}. Arguments SPow {F}. Arguments SExp {F}.
Arguments SLog {F}. Arguments SHeaviside {F}. Arguments SAbs {F}. Arguments SMax {F}. Arguments SMin {F}.
Arguments SNumber {F}. Arguments SOther {F}.

Record env := mkEnv { e_species : list nat; e_params : list nat; e_volume : nat; e_time : nat }.

Fixpoint pos_of (l : list nat) (n : nat) : option nat :=
  match l with [] => None | h :: t => if Nat.eqb h n then Some 0%nat else option_map S (pos_of t n) end.

Inductive tres (T : Type) := TOk (v : T) | TUnknownName (n : nat) | TNotANumber.
Arguments TOk {T}. Arguments TUnknownName {T}. Arguments TNotANumber {T}.

Section Translate.
  Context {F : Type}.
  Variable E : env.

  (* name = str(tree); if name[0] == '_': name = name[1:]; species, then parameter, then 'volume', then 't' *)
  Definition resolve (underscore : bool) (stripped full : nat) : tres (term F) :=
    let name := if underscore then stripped else full in
    match pos_of (e_species E) name with
    | Some i => TOk (TSpecies i)
    | None => match pos_of (e_params E) name with
              | Some i => TOk (TParam i)
              | None => if Nat.eqb name (e_volume E) then TOk TVolume
                        else if Nat.eqb name (e_time E) then TOk TTime else TUnknownName name
              end
    end.

  Fixpoint seq_res (l : list (tres (term F))) : tres (list (term F)) :=
    match l with
    | [] => TOk []
    | TOk v :: r => match seq_res r with TOk vs => TOk (v :: vs) | TUnknownName n => TUnknownName n | TNotANumber => TNotANumber end
    | TUnknownName n :: _ => TUnknownName n
    | TNotANumber :: _ => TNotANumber
    end.
  Definition bind1 (r : tres (term F)) (f : term F -> term F) : tres (term F) :=
    match r with TOk v => TOk (f v) | TUnknownName n => TUnknownName n | TNotANumber => TNotANumber end.
  Definition bindl (r : tres (list (term F))) (f : list (term F) -> term F) : tres (term F) :=
    match r with TOk v => TOk (f v) | TUnknownName n => TUnknownName n | TNotANumber => TNotANumber end.

  Fixpoint translate (s : stree F) : tres (term F) :=
    match s with
    | SSymbol u st fu => resolve u st fu
    | SAdd args => bindl (seq_res (map translate args)) TSum
    | SMul args => bindl (seq_res (map translate args)) TProd
    | SMax args => bindl (seq_res (map translate args)) TMax
    | SMin args => bindl (seq_res (map translate args)) TMin
    | SPow b e => match translate b with
                  | TOk tb => bind1 (translate e) (fun te => TPow tb te)
                  | TUnknownName n => TUnknownName n | TNotANumber => TNotANumber
                  end
    | SExp a => bind1 (translate a) TExp
    | SLog a => bind1 (translate a) TLog
    | SHeaviside a => bind1 (translate a) TStep
    | SAbs a => bind1 (translate a) TAbs
    | SNumber v => TOk (TConst v)
    | SOther => TNotANumber
    end.
End Translate.
