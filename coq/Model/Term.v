(* Hand model of the expression-node classes of bioscrape/types.pyx (Term and subclasses):
   evaluate (vol = None: 'volume' reads 1.0) and volume_evaluate (vol = Some V). *)
From Coq Require Import ZArith List Bool.
From BS Require Import Base.Arith.
Import ListNotations.

Inductive term (F : Type) : Type :=
| TConst (v : F) | TSpecies (i : nat) | TParam (i : nat) | TVolume | TTime
| TSum (ts : list (term F)) | TProd (ts : list (term F))
| TMax (ts : list (term F)) | TMin (ts : list (term F))
| TPow (b e : term F) | TExp (a : term F) | TLog (a : term F) | TStep (a : term F) | TAbs (a : term F).
Arguments TConst {F}. Arguments TSpecies {F}. Arguments TParam {F}. Arguments TVolume {F}.
Arguments TTime {F}. Arguments TSum {F}. Arguments TProd {F}. Arguments TMax {F}. Arguments TMin {F}.
Arguments TPow {F}. Arguments TExp {F}. Arguments TLog {F}. Arguments TStep {F}. Arguments TAbs {F}.

Section Eval.
  Context {F : Type} (A : Arith F).

  Definition getv (x : list F) (i : nat) : F := nth i x (f0 A).

  Fixpoint teval (vol : option F) (x p : list F) (t : F) (tm : term F) : F :=
    match tm with
    | TConst v => v
    | TSpecies i => getv x i
    | TParam i => getv p i
    | TVolume => match vol with Some v => v | None => f1 A end
    | TTime => t
    | TSum ts => fold_left (fun ans a => fadd A ans (teval vol x p t a)) ts (f0 A)
    | TProd ts => fold_left (fun ans a => fmul A ans (teval vol x p t a)) ts (f1 A)
    | TMax ts =>
        match ts with
        | [] => f0 A      (* terms[0] of an empty vector: undefined in the code; sympy's Max has >= 2 args *)
        | a0 :: rest => fold_left (fun ans a => let temp := teval vol x p t a in
                                                if fltb A ans temp then temp else ans) rest (teval vol x p t a0)
        end
    | TMin ts =>
        match ts with
        | [] => f0 A
        | a0 :: rest => fold_left (fun ans a => let temp := teval vol x p t a in
                                                if fltb A temp ans then temp else ans) rest (teval vol x p t a0)
        end
    | TPow b e => fpow A (teval vol x p t b) (teval vol x p t e)
    | TExp a => fexp A (teval vol x p t a)
    | TLog a => flog A (teval vol x p t a)
    | TStep a => if fleb A (f0 A) (teval vol x p t a) then f1 A else f0 A
    | TAbs a => fabs A (teval vol x p t a)
    end.
End Eval.
