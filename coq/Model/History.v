(* Hand model of the Model object's life cycle (types.pyx): the definition (species order,
   reactions, values), the `initialized` flag, the cached stoichiometric matrices; which
   operations invalidate, which rebuild, and what simulating touches. *)
From Coq Require Import ZArith List Bool.
From BS Require Import Base.Arith Model.Builder.
Import ListNotations.

Record defn (F : Type) := mkDefn {
  df_species : list nat;                 (* species2index order *)
  df_reactions : list reaction;
  df_species_values : list (nat * F);    (* name -> value *)
  df_param_values : list (nat * F)
}.
Arguments mkDefn {F}. Arguments df_species {F}. Arguments df_reactions {F}.
Arguments df_species_values {F}. Arguments df_param_values {F}.

Record mstate (F : Type) := mkM {
  ms_def : defn F;
  ms_initialized : bool;
  ms_S : list (list Z); ms_Sd : list (list Z);     (* update_array, delay_update_array as last built *)
  ms_rng : nat                                      (* position in the random stream *)
}.
Arguments mkM {F}. Arguments ms_def {F}. Arguments ms_initialized {F}. Arguments ms_S {F}. Arguments ms_Sd {F}. Arguments ms_rng {F}.

Inductive op (F : Type) :=
| OCreateReaction (rx : reaction)          (* _add_species for every name, appends, initialized := False *)
| OAddSpecies (s : nat)
| OSetSpecies (s : nat) (v : F)            (* values only: does not touch initialized *)
| OSetParam (p : nat) (v : F)
| OCreateParam (p : nat) (v : F)           (* _add_param: initialized := False *)
| OInitialize
| OBuildInterface                          (* ModelCSimInterface(M): initializes if needed *)
| OSimulate (draws : nat)                  (* any mode: initializes if needed; consumes draws; copies the initial state *)
| OSeed (s : nat).
Arguments OCreateReaction {F}. Arguments OAddSpecies {F}. Arguments OSetSpecies {F}. Arguments OSetParam {F}.
Arguments OCreateParam {F}. Arguments OInitialize {F}. Arguments OBuildInterface {F}. Arguments OSimulate {F}. Arguments OSeed {F}.

Section Hist.
  Context {F : Type}.

  Fixpoint set_assoc (l : list (nat * F)) (k : nat) (v : F) : list (nat * F) :=
    match l with [] => [(k, v)] | (k', v') :: r => if Nat.eqb k' k then (k, v) :: r else (k', v') :: set_assoc r k v end.

  Definition rx_names (rx : reaction) : list nat := rx_reactants rx ++ rx_products rx ++ rx_dreactants rx ++ rx_dproducts rx.

  Definition initialize (m : mstate F) : mstate F :=
    let d := ms_def m in
    mkM d true (build_S (df_species d) (df_reactions d)) (build_Sd (df_species d) (df_reactions d)) (ms_rng m).
  Definition ensure_init (m : mstate F) : mstate F := if ms_initialized m then m else initialize m.

  Definition step (m : mstate F) (o : op F) : mstate F :=
    let d := ms_def m in
    match o with
    | OCreateReaction rx =>
        mkM (mkDefn (add_all (df_species d) (rx_names rx)) (df_reactions d ++ [rx]) (df_species_values d) (df_param_values d))
            false (ms_S m) (ms_Sd m) (ms_rng m)
    | OAddSpecies s => mkM (mkDefn (add_species (df_species d) s) (df_reactions d) (df_species_values d) (df_param_values d)) false (ms_S m) (ms_Sd m) (ms_rng m)
    | OSetSpecies s v => mkM (mkDefn (df_species d) (df_reactions d) (set_assoc (df_species_values d) s v) (df_param_values d)) (ms_initialized m) (ms_S m) (ms_Sd m) (ms_rng m)
    | OSetParam p v => mkM (mkDefn (df_species d) (df_reactions d) (df_species_values d) (set_assoc (df_param_values d) p v)) (ms_initialized m) (ms_S m) (ms_Sd m) (ms_rng m)
    | OCreateParam p v => mkM (mkDefn (df_species d) (df_reactions d) (df_species_values d) (set_assoc (df_param_values d) p v)) false (ms_S m) (ms_Sd m) (ms_rng m)
    | OInitialize => initialize m
    | OBuildInterface => ensure_init m
    | OSimulate n => let m' := ensure_init m in mkM (ms_def m') true (ms_S m') (ms_Sd m') (ms_rng m' + n)
    | OSeed s => mkM d (ms_initialized m) (ms_S m) (ms_Sd m) 0
    end.

  Definition run (m : mstate F) (ops : list (op F)) : mstate F := fold_left step ops m.
  Definition empty : mstate F := mkM (mkDefn [] [] [] []) false [] [] 0.

  (* what a simulation sees: the matrices after the implicit initialisation, and the definition *)
  Definition observe (m : mstate F) : defn F * list (list Z) * list (list Z) :=
    let m' := ensure_init m in (ms_def m', ms_S m', ms_Sd m').
End Hist.
