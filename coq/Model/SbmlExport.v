(* Hand model of sbmlutil.py : add_reaction's kinetic-law construction for mass action
   (deterministic: k * s^m; stochastic: k * s * (s - 1) * ...), reactants de-duplicated in
   first-occurrence order with their counts, and of its annotation key=value strings. *)
From Coq Require Import ZArith List Bool.
From BS Require Import Base.Arith Model.Propensity.
Import ListNotations.

Inductive sexpr :=
| ERate                         (* the rate parameter / number k *)
| ESp (s : nat)
| EMul (a b : sexpr)
| EPowN (a : sexpr) (m : nat)
| ESubN (a : sexpr) (j : nat).

(* inputs = list(OrderedDict.fromkeys(inputs_list)); input_coefs = counts : the multiplicity table *)
Definition export_det (rs : list nat) : sexpr :=
  let '(inds, counts) := multiplicity_table rs in
  fold_left (fun e ic => EMul e (if Nat.ltb 1 (snd ic) then EPowN (ESp (fst ic)) (snd ic) else ESp (fst ic)))
            (combine inds counts) ERate.
Definition export_stoch (rs : list nat) : sexpr :=
  let '(inds, counts) := multiplicity_table rs in
  fold_left (fun e ic => fold_left (fun e j => EMul e (if Nat.ltb 0 j then ESubN (ESp (fst ic)) j else ESp (fst ic)))
                                   (seq 0 (snd ic)) e)
            (combine inds counts) ERate.

(* annotation protocol: " key=value" words between tags; parsing splits on ' ' then on '='.
   Characters are numbers; 0 is the space, 1 is '='. *)
Definition word := list nat.
Fixpoint split_on (sep : nat) (s : list nat) (cur : word) : list word :=
  match s with
  | [] => [rev cur]
  | c :: r => if Nat.eqb c sep then rev cur :: split_on sep r [] else split_on sep r (c :: cur)
  end.
Definition print_kv (kv : list (word * word)) : list nat :=
  flat_map (fun p => 0 :: fst p ++ 1 :: snd p) kv.
Definition parse_kv (s : list nat) : list (word * word) :=
  flat_map (fun w => match split_on 1 w [] with
                     | k :: v :: _ => if existsb (Nat.eqb 1) w then [(k, v)] else []
                     | _ => []
                     end) (split_on 0 s []).
