(* Hand model of the parts of bioscrape/types.pyx : Model that decide stoichiometry:
   species index assignment (_add_species), the per-reaction update dictionaries of
   create_reaction, _create_stochiometric_matrices, check_parameters; and of
   CSimInterface.prep_deterministic_simulation / calculate_deterministic_derivative. *)
From Coq Require Import ZArith List Bool.
From BS Require Import Base.Arith Model.Term Model.Propensity Model.Interface.
Import ListNotations.

(* species and parameter names are represented by natural-number identifiers *)
Record reaction := mkRx {
  rx_reactants : list nat; rx_products : list nat;
  rx_dreactants : list nat; rx_dproducts : list nat
}.

(* _add_species: append if new *)
Definition add_species (sp : list nat) (s : nat) : list nat :=
  if existsb (Nat.eqb s) sp then sp else sp ++ [s].
Definition add_all (sp : list nat) (l : list nat) : list nat := fold_left add_species l sp.

(* Model.__init__: declared species, then per reaction reactants, products, delay reactants,
   delay products, then the keys of the initial-condition dictionary *)
Definition species_order (declared : list nat) (rxs : list reaction) (init_keys : list nat) : list nat :=
  let sp1 := add_all [] declared in
  let sp2 := fold_left (fun sp rx => add_all (add_all (add_all (add_all sp (rx_reactants rx)) (rx_products rx))
                                                     (rx_dreactants rx)) (rx_dproducts rx)) rxs sp1 in
  add_all sp2 init_keys.

Fixpoint index_of (sp : list nat) (s : nat) : option nat :=
  match sp with
  | [] => None
  | h :: t => if Nat.eqb h s then Some 0%nat else option_map S (index_of t s)
  end.

(* update dictionaries as association lists, in insertion order *)
Fixpoint dict_add (d : list (nat * Z)) (s : nat) (delta : Z) : list (nat * Z) :=
  match d with
  | [] => [(s, delta)]
  | (k, v) :: t => if Nat.eqb k s then (k, (v + delta)%Z) :: t else (k, v) :: dict_add t s delta
  end.
Definition update_dict (reactants products : list nat) : list (nat * Z) :=
  fold_left (fun d p => dict_add d p 1%Z) products
            (fold_left (fun d r => dict_add d r (-1)%Z) reactants []).
Fixpoint dict_get (d : list (nat * Z)) (s : nat) : Z :=
  match d with [] => 0%Z | (k, v) :: t => if Nat.eqb k s then v else dict_get t s end.

(* _create_stochiometric_matrices: species-major dense matrices *)
Definition stoich_matrix (sp : list nat) (dicts : list (list (nat * Z))) : list (list Z) :=
  map (fun s => map (fun d => dict_get d s) dicts) sp.
Definition build_S (sp : list nat) (rxs : list reaction) : list (list Z) :=
  stoich_matrix sp (map (fun rx => update_dict (rx_reactants rx) (rx_products rx)) rxs).
Definition build_Sd (sp : list nat) (rxs : list reaction) : list (list Z) :=
  stoich_matrix sp (map (fun rx => update_dict (rx_dreactants rx) (rx_dproducts rx)) rxs).

(* check_parameters: every parameter must have a value (None = still NaN) *)
Definition unset_params {F} (pv : list (nat * option F)) : list nat :=
  map fst (filter (fun nv => match snd nv with None => true | Some _ => false end) pv).
Definition initialize_ok {F} (pv : list (nat * option F)) : bool :=
  match unset_params pv with [] => true | _ => false end.

Section Deriv.
  Context {F : Type} (A : Arith F).

  (* prep_deterministic_simulation: per species, the reactions with S + Sd <> 0 and the value *)
  Definition prep_row (nrx : nat) (srow drow : list Z) : list (nat * Z) :=
    flat_map (fun r => let v := (nth r srow 0 + nth r drow 0)%Z in
                       if Z.eqb v 0 then [] else [(r, v)]) (seq 0 nrx).
  Definition prep (si : simif F) : list (list (nat * Z)) :=
    map (fun s => prep_row (length (si_props si)) (nth s (si_S si) []) (nth s (si_Sd si) []))
        (seq 0 (si_nspecies si)).

  (* calculate_deterministic_derivative *)
  Definition derivative (si : simif F) (x : list F) (t : F) : list F :=
    let props := compute_plain A si Det x (f0 A) t in
    map (fun row => fold_left (fun acc rv => fadd A acc (fmul A (nth (fst rv) props (f0 A)) (fofZ A (snd rv)))) row (f0 A))
        (prep si).
End Deriv.
