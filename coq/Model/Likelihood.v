(* Hand model of inference_setup.py : InferenceSetup.extract_data (after numpy's array / .T /
   reshape on row-major data) and of pid_interfaces.py + inference.pyx : the deterministic cost
   (reset to defaults, theta, per-trajectory parameter condition, p-norm accumulation).
   The deterministic simulator is a parameter. *)
From Coq Require Import ZArith List Bool.
From BS Require Import Base.Arith.
Import ListNotations.

Section Data.
  Context {T : Type} (d : T).
  (* np.array(list of M rows of length T) is the M x T matrix; .T transposes; reshape regroups the
     row-major flattening into rows of ncols entries *)
  Fixpoint chunks (fuel ncols : nat) (flat : list T) : list (list T) :=
    match fuel with
    | O => []
    | S f => match flat with [] => [] | _ => firstn ncols flat :: chunks f ncols (skipn ncols flat) end
    end.
  Definition reshape2 (nrows ncols : nat) (m : list (list T)) : list (list T) := chunks nrows ncols (concat m).
  Definition column (m : list (list T)) (t : nat) : list T := map (fun row => nth t row d) m.
  Definition transpose (ncols : nat) (m : list (list T)) : list (list T) := map (column m) (seq 0 ncols).

  (* extract_data for one frame: columns (one list per measured species, T entries each) -> T x M *)
  Definition extract_frame (nT : nat) (cols : list (list T)) : list (list T) :=
    reshape2 nT (length cols) (transpose nT cols).
End Data.

Section Cost.
  Context {F : Type} (A : Arith F).
  (* sim params x0 times = one row per time point *)
  Variable sim : list F -> list F -> list F -> list (list F).

  Fixpoint override (p : list F) (upd_ : list (nat * F)) : list F :=
    match upd_ with [] => p | (k, v) :: r => override (upd p k v) r end.

  Record traj := mkTraj { tj_x0 : list F; tj_cond : list (nat * F); tj_times : list F; tj_data : list (list F) (* T x M *) }.

  (* sum over measured species i (outer) and time points t (inner) of |data[t][i] - ans[t][idx_i]|^p *)
  Definition traj_error (meas_idx : list nat) (p_norm : F) (ans data : list (list F)) (err : F) : F :=
    fold_left (fun e im =>
                 fold_left (fun e t =>
                              let dif := fsub A (nth (fst im) (nth t data []) (f0 A)) (nth (snd im) (nth t ans []) (f0 A)) in
                              let dif := if fltb A dif (f0 A) then fneg A dif else dif in
                              fadd A e (fpow A dif p_norm))
                           (seq 0 (length data)) e)
              (combine (seq 0 (length meas_idx)) meas_idx) err.

  (* get_log_likelihood after "reset to defaults; set theta": returns (-(error^(1/p)), parameters left in the model) *)
  Definition log_likelihood (entry : list F) (meas_idx : list nat) (p_norm : F) (trajs : list traj) : F * list F :=
    let '(err, pm) :=
      fold_left (fun ep tj =>
                   let pn := override entry (tj_cond tj) in     (* set_init_params(entry); set_init_params(condition_n) *)
                   (traj_error meas_idx p_norm (sim pn (tj_x0 tj) (tj_times tj)) (tj_data tj) (fst ep), pn))
                trajs (f0 A, entry) in
    (fneg A (fpow A err (fdiv A (f1 A) p_norm)), pm).
  Definition nan_to_none (v : F) : option F := if fisnan A v then None else Some v.

  (* get_likelihood_function: lp = None when the prior is not finite *)
  Definition cost (defaults : list F) (theta : list (nat * F)) (lp : option F) (meas_idx : list nat) (p_norm : F)
             (trajs : list traj) (pm_before : list F) : option F * list F :=
    match lp with
    | None => (None, pm_before)                           (* -inf, the model is not touched *)
    | Some l =>
        let entry := override defaults theta in             (* set_init_params(defaults) overwrites every parameter *)
        let '(ll, pm) := log_likelihood entry meas_idx p_norm trajs in
        (match nan_to_none ll with None => None | Some v => Some (fadd A l v) end, pm)
    end.
End Cost.
