(* Hand model of lineage/lineage.pyx : LineageSSASimulator.SimulateSingleCell (mode 1) with the rule and
   event classes it consults (noise-free forms): volume rules, division rules, death rules, volume / division /
   death events.  Loop on fuel; the random stream is an argument. *)
From Coq Require Import ZArith List Bool.
From BS Require Import Base.Arith Model.Term Model.Propensity Model.Interface Model.Rules Model.Random Model.Queue Model.SSA.
Import ListNotations.

Inductive vrule (F : Type) :=
| VRLinear (g : nat) (noise : option nat)   (* volume + (p[g] + N(0, p[noise]))*dt *)
| VRMult (g : nat) (noise : option nat)     (* volume + volume*(p[g] + N(0, p[noise]))*dt *)
| VRAssign (tm : term F)        (* term evaluated with the volume *)
| VROde (tm : term F).          (* volume + term*dt *)
Arguments VRLinear {F}. Arguments VRMult {F}. Arguments VRAssign {F}. Arguments VROde {F}.

Inductive drule (F : Type) :=
| DRTime (thr : nat) (noise : option nat)     (* time - initial_time >= p[thr] - 1e-9, or >= p[thr] + N(0, p[noise]) *)
| DRVolume (thr : nat) (noise : option nat)   (* volume >= ... *)
| DRDeltaV (thr : nat) (noise : option nat)   (* volume - initial_volume >= ... *)
| DRGeneral (tm : term F).      (* term > 0 *)
Arguments DRTime {F}. Arguments DRVolume {F}. Arguments DRDeltaV {F}. Arguments DRGeneral {F}.

Inductive krule (F : Type) :=
| KRSpecies (sp thr : nat) (comp : Z) (noise : option nat)    (* comp: 0 "=", 1 ">", -1 "<", with the 1e-9 slack of the code; threshold p[thr] (+ N(0, p[noise])) *)
| KRParam (pa thr : nat) (comp : Z) (noise : option nat)
| KRGeneral (tm : term F).
Arguments KRSpecies {F}. Arguments KRParam {F}. Arguments KRGeneral {F}.

Inductive vevent (F : Type) :=
| VELinear (g : nat)            (* volume + p[g] *)
| VEMult (g : nat)              (* volume*(1 + p[g]) *)
| VEGeneral (tm : term F).
Arguments VELinear {F}. Arguments VEMult {F}. Arguments VEGeneral {F}.

Record lin (F : Type) := mkLin {
  ln_sim : sim F;
  ln_vrules : list (vrule F); ln_drules : list (drule F); ln_krules : list (krule F);
  (* lineage propensities in the interface's order: volume events, division events, death events *)
  ln_vevents : list (prop F * vevent F); ln_devents : list (prop F); ln_kevents : list (prop F)
}.
Arguments mkLin {F}. Arguments ln_sim {F}. Arguments ln_vrules {F}. Arguments ln_drules {F}. Arguments ln_krules {F}.
Arguments ln_vevents {F}. Arguments ln_devents {F}. Arguments ln_kevents {F}.

Section LineageLoop.
  Context {F : Type} (A : Arith F) (pi2 : F).
  Variable eps9 : F.      (* 1E-9 *)
  Variable eps7 : F.      (* 10e-8 *)

  (* the noise term normal_rv(0, p[noise]) of a rule, when it has one: two uniforms *)
  Definition noise_of (noise : option nat) (p : list F) (u : nat -> F) (pos : nat) : F * nat :=
    match noise with
    | None => (f0 A, pos)
    | Some i => normal_rv A pi2 (fofZ A 0) (getv A p i) u pos
    end.

  Definition vrule_apply (r : vrule F) (x p : list F) (V t dt : F) (u : nat -> F) (pos : nat) : F * nat :=
    match r with
    | VRLinear g None => (fadd A V (fmul A (getv A p g) dt), pos)
    | VRLinear g (Some i) => let '(z, pos') := noise_of (Some i) p u pos in (fadd A V (fmul A (fadd A (getv A p g) z) dt), pos')
    | VRMult g None => (fadd A V (fmul A (fmul A V (getv A p g)) dt), pos)
    | VRMult g (Some i) => let '(z, pos') := noise_of (Some i) p u pos in (fadd A V (fmul A (fmul A V (fadd A (getv A p g) z)) dt), pos')
    | VRAssign tm => (teval A (Some V) x p t tm, pos)
    | VROde tm => (fadd A V (fmul A (teval A (Some V) x p t tm) dt), pos)
    end.
  Definition apply_volume_rules (rs : list (vrule F)) (x p : list F) (V t dt : F) (u : nat -> F) (pos : nat) : F * nat :=
    fold_left (fun vp r => vrule_apply r x p (fst vp) t dt u (snd vp)) rs (V, pos).

  (* threshold test: without noise "value >= p[thr] - 1e-9", with noise "value >= p[thr] + N(0, p[noise])" *)
  Definition thr_check (v : F) (thr : nat) (noise : option nat) (p : list F) (u : nat -> F) (pos : nat) : bool * nat :=
    match noise with
    | None => (fleb A (fsub A (getv A p thr) eps9) v, pos)
    | Some i => let '(z, pos') := noise_of (Some i) p u pos in (fleb A (fadd A (getv A p thr) z) v, pos')
    end.
  Definition drule_check (r : drule F) (x p : list F) (t V t_init V_init : F) (u : nat -> F) (pos : nat) : bool * nat :=
    match r with
    | DRTime thr noise => thr_check (fsub A t t_init) thr noise p u pos
    | DRVolume thr noise => thr_check V thr noise p u pos
    | DRDeltaV thr noise => thr_check (fsub A V V_init) thr noise p u pos
    | DRGeneral tm => (fltb A (f0 A) (teval A (Some V) x p t tm), pos)
    end.
  Definition cmp_check (v thr : F) (comp : Z) : bool :=
    if (comp =? 0)%Z then fltb A (fsub A thr eps9) v && fltb A v (fadd A thr eps9)
    else if (comp =? 1)%Z then fltb A (fsub A thr eps9) v
    else if (comp =? -1)%Z then fltb A v (fadd A thr eps9)
    else false.
  Definition krule_check (r : krule F) (x p : list F) (t V : F) (u : nat -> F) (pos : nat) : bool * nat :=
    match r with
    | KRSpecies sp thr comp noise => let '(z, pos') := noise_of noise p u pos in
                                     (cmp_check (getv A x sp) (match noise with None => getv A p thr | Some _ => fadd A (getv A p thr) z end) comp, pos')
    | KRParam pa thr comp noise => let '(z, pos') := noise_of noise p u pos in
                                   (cmp_check (getv A p pa) (match noise with None => getv A p thr | Some _ => fadd A (getv A p thr) z end) comp, pos')
    | KRGeneral tm => (fltb A (f0 A) (teval A (Some V) x p t tm), pos)
    end.
  (* index of the first rule that holds, -1 otherwise; the rules after it are not evaluated (they draw nothing) *)
  Fixpoint first_true {T} (chk : T -> nat -> bool * nat) (l : list T) (i : Z) (pos : nat) : Z * nat :=
    match l with
    | [] => ((-1)%Z, pos)
    | r :: rest => let '(b, pos') := chk r pos in if b then (i, pos') else first_true chk rest (i + 1)%Z pos'
    end.

  Definition vevent_apply (e : vevent F) (x p : list F) (V t : F) : F :=
    match e with
    | VELinear g => fadd A V (getv A p g)
    | VEMult g => fmul A V (fadd A (f1 A) (getv A p g))
    | VEGeneral tm => teval A (Some V) x p t tm
    end.

  (* compute_lineage_propensities: reactions (plain or safe interface, stochastic + volume), then the events *)
  Definition lin_props (l : lin F) (x p : list F) (V t : F) : list F :=
    stoch_props A (ln_sim l) StochVol x p V t ++
    map (fun pr => let v := prop_eval A pr StochVol x p V t in
                   if sm_safe (ln_sim l) then clip A v else v)        (* the safe interface sets a negative event propensity to 0 *)
        (map fst (ln_vevents l) ++ ln_devents l ++ ln_kevents l).

  Record lstate := mkLst {
    ls_time : F; ls_todo : list F; ls_x : list F; ls_p : list F; ls_rule_step : bool; ls_pos : nat;
    ls_rows : list (list F); ls_vols : list F; ls_next_q : F; ls_V : F;
    ls_divided : Z; ls_dead : Z; ls_stop : bool
  }.

  (* one pass of the while loop; final = last requested time; t_init, V_init = the cell state's birth time / volume *)
  Definition lssa_iter (l : lin F) (dt final t_init V_init : F) (u : nat -> F) (st : lstate) : outcome lstate :=
    match ls_todo st with
    | [] => Done st
    | _ :: _ =>
      let s := ln_sim l in
      let V := ls_V st in
      let '(x1, p1) := apply_rules A (sm_rules s) (Some V) (ls_x st, ls_p st) (ls_time st) dt (ls_rule_step st) in
      (* death rules first, then division rules: both lists are consulted (and draw their noise) before either result is used *)
      let '(dead, posa) := first_true (fun r => krule_check r x1 p1 (ls_time st) V u) (ln_krules l) 0%Z (ls_pos st) in
      let '(divd, posb) := first_true (fun r => drule_check r x1 p1 (ls_time st) V t_init V_init u) (ln_drules l) 0%Z posa in
      if (0 <=? dead)%Z then
        Done (mkLst (ls_time st) (ls_todo st) x1 p1 (ls_rule_step st) posb (ls_rows st) (ls_vols st) (ls_next_q st) V (-1)%Z dead true)
      else if (0 <=? divd)%Z then
        Done (mkLst (ls_time st) (ls_todo st) x1 p1 (ls_rule_step st) posb (ls_rows st) (ls_vols st) (ls_next_q st) V divd (-1)%Z true)
      else
      let props := lin_props l x1 p1 V (ls_time st) in
      let Lambda := array_sum A props in
      let '(proposed, rs, pos1) :=
        if feqb A Lambda (f0 A) then
          (* nothing can fire: one dt ahead, but never before the next queued time *)
          ((if fltb A (fadd A (ls_time st) dt) (ls_next_q st) then ls_next_q st else fadd A (ls_time st) dt), true, posb)
        else let '(tau, pos') := exponential_rv A Lambda u posb in (fadd A (ls_time st) tau, false, pos') in
      let nq := ls_next_q st in
      let '(time', nq', toq, rs) :=
        if (fltb A nq proposed || (feqb A Lambda (f0 A) && fleb A nq proposed)) && fltb A nq final then (nq, fadd A nq dt, true, true)
        else if fltb A (fsub A final eps7) proposed then (final, nq, true, true)
        else (proposed, nq, false, rs) in
      let '(rows, rem) := record A (ls_todo st) time' x1 in
      let vols := map (fun _ => V) rows in
      if toq then
        let '(V', posv) := apply_volume_rules (ln_vrules l) x1 p1 V time' dt u pos1 in
        if fleb A V' (f0 A) then Fault 4
        else Done (mkLst time' rem x1 p1 rs posv (ls_rows st ++ rows) (ls_vols st ++ vols) nq' V' (-1)%Z (-1)%Z false)
      else
        let '(choice, pos2) := sample_discrete A props Lambda u pos1 in
        if (choice <? 0)%Z || (Z.of_nat (length props) <=? choice)%Z then Fault 1
        else
          let nrx := length (si_props (sm_if s)) in
          let nve := length (ln_vevents l) in let nde := length (ln_devents l) in
          let c := Z.to_nat choice in
          if (c <? nrx)%nat then
            Done (mkLst time' rem (add_col2 A x1 (si_S (sm_if s)) (si_Sd (sm_if s)) c) p1 rs pos2 (ls_rows st ++ rows) (ls_vols st ++ vols) nq' V (-1)%Z (-1)%Z false)
          else if (c <? nrx + nve)%nat then
            let V' := vevent_apply (snd (nth (c - nrx) (ln_vevents l) (PConst 0, VELinear 0))) x1 p1 V time' in
            if fleb A V' (f0 A) then Fault 4
            else Done (mkLst time' rem x1 p1 rs pos2 (ls_rows st ++ rows) (ls_vols st ++ vols) nq' V' (-1)%Z (-1)%Z false)
          else if (c <? nrx + nve + nde)%nat then
            Done (mkLst time' rem x1 p1 rs pos2 (ls_rows st ++ rows) (ls_vols st ++ vols) nq' V
                        (Z.of_nat (c - nrx - nve) + Z.of_nat (length (ln_drules l)))%Z (-1)%Z true)
          else
            Done (mkLst time' rem x1 p1 rs pos2 (ls_rows st ++ rows) (ls_vols st ++ vols) nq' V
                        (-1)%Z (Z.of_nat (c - nrx - nve - nde) + Z.of_nat (length (ln_krules l)))%Z true)
    end.

  Fixpoint lssa_loop (fuel : nat) (l : lin F) (dt final t_init V_init : F) (u : nat -> F) (st : lstate) : outcome lstate :=
    match ls_todo st with
    | [] => Done st
    | _ => if ls_stop st then Done st else
           match fuel with
           | O => OutOfFuel
           | S fuel' => match lssa_iter l dt final t_init V_init u st with
                        | Done st' => lssa_loop fuel' l dt final t_init V_init u st'
                        | OutOfFuel => OutOfFuel | Fault w => Fault w
                        end
           end
    end.

  (* after the loop: a cell that divided or died before the next requested time -- or before anything was recorded --
     reports its current state at that time point ("push current state to the nearest index") *)
  Definition lssa_finish (st : lstate) : lstate :=
    if ((0 <=? ls_divided st)%Z || (0 <=? ls_dead st)%Z) then
      match ls_todo st with
      | t :: rest => if fltb A (ls_time st) t || match ls_rows st with [] => true | _ => false end
                     then mkLst (ls_time st) rest (ls_x st) (ls_p st) (ls_rule_step st) (ls_pos st) (ls_rows st ++ [ls_x st]) (ls_vols st ++ [ls_V st])
                                (ls_next_q st) (ls_V st) (ls_divided st) (ls_dead st) true
                     else st
      | [] => st
      end
    else st.

  (* SimulateSingleCell for at least two requested times: the cell state v = (time t_cur, birth time t_init, volume V,
     birth volume V_init, state x0); rule_step starts set; next_queue_time = timepoints[1] *)
  Definition lssa_simulate (fuel : nat) (l : lin F) (ts : list F) (t_cur t_init V V_init : F) (x0 : list F) (u : nat -> F) (pos : nat)
    : outcome lstate :=
    match ts with
    | t0 :: t1 :: _ =>
      let dt := fsub A t1 t0 in
      let final := last ts t0 in
      match lssa_loop fuel l dt final t_init V_init u
              (mkLst t_cur ts x0 (si_params (sm_if (ln_sim l))) true pos [] [] t1 V (-1)%Z (-1)%Z false) with
      | Done st => Done (lssa_finish st)
      | OutOfFuel => OutOfFuel | Fault w => Fault w
      end
    | _ => Fault 5
    end.
End LineageLoop.
