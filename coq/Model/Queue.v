(* Hand model of bioscrape/simulator.pyx : ArrayDelayQueue (ring buffer of pending delayed
   reactions).  Times live in an arithmetic F; amounts live in a monoid M (the code only ever
   adds amounts, copies them and writes zero; bioscrape instantiates both with C doubles). *)
From Coq Require Import ZArith List Bool Lia.
From BS Require Import Base.Arith.
Import ListNotations.

Section Queue.
  Context {F : Type} (A : Arith F) {M : Type} (mzero : M) (madd : M -> M -> M).

  Record queue := mkQueue {
    q_cells : list (list M);     (* one row per reaction, q_ncols entries each *)
    q_ncols : nat;
    q_start : nat;
    q_next  : F;                 (* next_queue_time *)
    q_dt    : F
  }.

  Definition half : F := fdiv A (fofZ A 1) (fofZ A 2).

  (* ArrayDelayQueue(np.zeros((nrx, ncols)), dt, current_time) *)
  Definition q_make (nrx ncols : nat) (dt t : F) : queue :=
    mkQueue (repeat (repeat mzero ncols) nrx) ncols 0 (fadd A t dt) dt.

  (* int((time - next_queue_time)/dt + 0.5), then clamp into [0, ncols-1] *)
  Definition q_raw_index (q : queue) (time : F) : Z :=
    ftrunc A (fadd A (fdiv A (fsub A time (q_next q)) (q_dt q)) half).
  Definition q_offset (q : queue) (time : F) : nat :=
    let i := q_raw_index q time in
    if (i <? 0)%Z then 0%nat
    else if (i >=? Z.of_nat (q_ncols q))%Z then (q_ncols q - 1)%nat
    else Z.to_nat i.
  Definition q_slot (q : queue) (off : nat) : nat := (off + q_start q) mod (q_ncols q).

  Definition row_add (row : list M) (c : nat) (a : M) : list M :=
    match nth_error row c with Some v => upd row c (madd v a) | None => row end.

  (* add_reaction; None = out-of-range reaction index (undefined behaviour in the code) *)
  Definition q_add (q : queue) (time : F) (r : nat) (a : M) : option queue :=
    match nth_error (q_cells q) r with
    | None => None
    | Some row =>
      let c := q_slot q (q_offset q time) in
      Some (mkQueue (upd (q_cells q) r (row_add row c a)) (q_ncols q) (q_start q) (q_next q) (q_dt q))
    end.

  Definition q_next_time (q : queue) : F := q_next q.

  (* get_next_reactions *)
  Definition q_peek (q : queue) : list M :=
    map (fun row => nth (q_start q) row mzero) (q_cells q).

  (* advance_time *)
  Definition q_advance (q : queue) : queue :=
    mkQueue (map (fun row => upd row (q_start q) mzero) (q_cells q)) (q_ncols q)
            ((q_start q + 1) mod q_ncols q) (fadd A (q_next q) (q_dt q)) (q_dt q).

  Definition q_set_time (q : queue) (t : F) : queue :=
    mkQueue (q_cells q) (q_ncols q) (q_start q) (fadd A t (q_dt q)) (q_dt q).

  Definition q_copy (q : queue) : queue := q.
  Definition q_clear_copy (q : queue) : queue :=
    mkQueue (repeat (repeat mzero (q_ncols q)) (length (q_cells q))) (q_ncols q) (q_start q) (q_next q) (q_dt q).

  (* what is pending at offset off (0 = next slot) for reaction r *)
  Definition q_pending (q : queue) (off r : nat) : M :=
    nth (q_slot q off) (nth r (q_cells q) []) mzero.
End Queue.

Arguments queue : clear implicits.
Arguments mkQueue {F M}.
Arguments q_cells {F M}. Arguments q_ncols {F M}. Arguments q_start {F M}.
Arguments q_next {F M}. Arguments q_dt {F M}.

(* binomial_partition: amounts are numbers here.  The binomial sampler (random.pyx:
   binom_rnd_f) consumes one uniform per unit of amount: count of draws u < p. *)
Section Partition.
  Context {F : Type} (A : Arith F).

  (* binom_rnd_f(N, p): n = int(N + 0.5); for i in range(n): if uniform_rv() < p: answer += 1 *)
  Fixpoint binom_draws (n : nat) (p : F) (u : nat -> F) (pos : nat) (acc : nat) : nat * nat :=
    match n with
    | O => (acc, pos)
    | S k => binom_draws k p u (S pos) (if fltb A (u pos) p then S acc else acc)
    end.
  Definition binom_rnd_f (n : F) (p : F) (u : nat -> F) (pos : nat) : F * nat :=
    let '(c, pos') := binom_draws (Z.to_nat (ftrunc A (fadd A n (fdiv A (fofZ A 1) (fofZ A 2))))) p u pos 0 in
    (fofZ A (Z.of_nat c), pos').

  (* loop order of the code: for time_index: for reaction_index *)
  Fixpoint part_cells (order : list (nat * nat)) (src q1 q2 : list (list F)) (p : F)
           (u : nat -> F) (pos : nat) : list (list F) * list (list F) * nat :=
    match order with
    | [] => (q1, q2, pos)
    | (r, c) :: rest =>
      let v := nth c (nth r src []) (f0 A) in
      let '(b, pos') := binom_rnd_f v p u pos in
      let q1' := upd q1 r (upd (nth r q1 []) c b) in
      let q2' := upd q2 r (upd (nth r q2 []) c (fsub A v b)) in
      part_cells rest src q1' q2' p u pos'
    end.
  Definition part_order (nrx ncols : nat) : list (nat * nat) :=
    flat_map (fun c => map (fun r => (r, c)) (seq 0 nrx)) (seq 0 ncols).

  Definition q_partition (q : queue F F) (p : F) (u : nat -> F) (pos : nat)
    : queue F F * queue F F * nat :=
    let z := q_cells (q_clear_copy (f0 A) q) in
    let '(c1, c2, pos') := part_cells (part_order (length (q_cells q)) (q_ncols q)) (q_cells q) z z p u pos in
    (mkQueue c1 (q_ncols q) (q_start q) (q_next q) (q_dt q),
     mkQueue c2 (q_ncols q) (q_start q) (q_next q) (q_dt q), pos').
End Partition.
