(* Hand model of bioscrape/random.pyx samplers over an explicit stream of uniforms
   u : nat -> F (position |-> uniform in [0,1]); every sampler returns the new position. *)
From Coq Require Import ZArith List Bool.
From BS Require Import Base.Arith.
Import ListNotations.

Section Random.
  Context {F : Type} (A : Arith F) (pi2 : F).   (* pi2 = 2*3.14159265358979... as a double *)
  Notation "a + b" := (fadd A a b). Notation "a * b" := (fmul A a b).
  Notation "a / b" := (fdiv A a b). Notation "a - b" := (fsub A a b).

  (* array_sum *)
  Definition array_sum (data : list F) : F := fold_left (fun acc v => acc + v) data (f0 A).

  (* exponential_rv(Lambda) = -1.0/Lambda * log(uniform_rv()) *)
  Definition exponential_rv (Lambda : F) (u : nat -> F) (pos : nat) : F * nat :=
    (fofZ A (-1) / Lambda * flog A (u pos), S pos).

  (* sample_discrete: q = u*Lambda; i = 0; p_sum = 0; while p_sum < q and i < choices: p_sum += data[i]; i += 1; return i - 1 *)
  Fixpoint sd_scan (data : list F) (q p_sum : F) (i : Z) : Z :=
    match data with
    | [] => (i - 1)%Z
    | d :: rest => if fltb A p_sum q then sd_scan rest q (p_sum + d) (i + 1)%Z else (i - 1)%Z
    end.
  Definition sample_discrete (data : list F) (Lambda : F) (u : nat -> F) (pos : nat) : Z * nat :=
    (sd_scan data (u pos * Lambda) (f0 A) 0%Z, S pos).

  (* normal_rv: u, v uniforms; R = sqrt(-2*log(u)); theta = 2*pi*v; R*cos(theta)*std + mean *)
  Definition normal_rv (mean std : F) (u : nat -> F) (pos : nat) : F * nat :=
    let r := fsqrt A (fofZ A (-2) * flog A (u pos)) in
    let theta := pi2 * u (S pos) in
    (r * fcos A theta * std + mean, S (S pos)).

  (* gamma_rv (Marsaglia-Tsang), loop bounded by fuel; None = fuel exhausted *)
  Definition third : F := fofZ A 1 / fofZ A 3.
  Fixpoint gamma_loop (fuel : nat) (d c theta : F) (u : nat -> F) (pos : nat) : option (F * nat) :=
    match fuel with
    | O => None
    | S fuel' =>
        let '(x, pos1) := normal_rv (fofZ A 0) (fofZ A 1) u pos in
        let t := fofZ A 1 + c * x in
        let v := fpow A t (fofZ A 3) in                          (* (1+c*x)**3 *)
        let uni := u pos1 in
        let pos2 := S pos1 in
        if fltb A (f0 A) v &&
           fltb A (flog A uni) (fdiv A (fofZ A 1) (fofZ A 2) * fpow A x (fofZ A 2) + d - d * v + d * flog A v)
        then Some (d * v * theta, pos2)
        else gamma_loop fuel' d c theta u pos2
    end.
  Definition gamma_rv (fuel : nat) (k theta : F) (u : nat -> F) (pos : nat) : option (F * nat) :=
    let d := k - third in
    let c := fofZ A 1 / fsqrt A (fofZ A 9 * d) in
    gamma_loop fuel d c theta u pos.
End Random.
