(* Hand model of ModelCSimInterface / SafeModelCSimInterface (simulator.pyx): per-reaction
   propensity loops, the reactant-requirement table of the safe interface and its zeroing. *)
From Coq Require Import ZArith List Bool.
From BS Require Import Base.Arith Model.Term Model.Propensity.
Import ListNotations.

Record simif (F : Type) := mkSim {
  si_props : list (prop F);
  si_S : list (list Z);        (* update_array, species-major: si_S[s][r] *)
  si_Sd : list (list Z);       (* delay_update_array *)
  si_params : list F;
  si_nspecies : nat
}.
Arguments mkSim {F}. Arguments si_props {F}. Arguments si_S {F}. Arguments si_Sd {F}.
Arguments si_params {F}. Arguments si_nspecies {F}.

Definition sget (S : list (list Z)) (s r : nat) : Z := nth r (nth s S []) 0%Z.

Section Iface.
  Context {F : Type} (A : Arith F).

  Definition compute_plain (si : simif F) (m : mode) (x : list F) (V t : F) : list F :=
    map (fun pr => prop_eval A pr m x (si_params si) V t) (si_props si).

  (* initialize_reaction_inputs: row r lists (species, amount needed), species in index order *)
  Definition need_amount (a d : Z) : Z :=
    if (a <? 0)%Z && (d <? 0)%Z then (- (a + d))%Z else (- Z.min a d)%Z.
  Definition need_row (si : simif F) (r : nat) : list (nat * Z) :=
    flat_map (fun s => let a := sget (si_S si) s r in let d := sget (si_Sd si) s r in
                       if (a <? 0)%Z || (d <? 0)%Z then [(s, need_amount a d)] else [])
             (seq 0 (si_nspecies si)).

  Definition short (x : list F) (row : list (nat * Z)) : bool :=
    existsb (fun sa => fltb A (getv A x (fst sa)) (fofZ A (snd sa))) row.
  Definition clip (v : F) : F := if fltb A v (f0 A) then f0 A else v.

  Definition compute_safe (si : simif F) (m : mode) (x : list F) (V t : F) : list F :=
    map (fun rp =>
           let raw := prop_eval A (snd rp) m x (si_params si) V t in
           match m with
           | Vol => raw                                   (* not overridden by the safe class *)
           | Det => clip raw                              (* its zeroing test `amount < 0` never holds *)
           | Stoch | StochVol => if short x (need_row si (fst rp)) then f0 A else clip raw
           end)
        (combine (seq 0 (length (si_props si))) (si_props si)).
End Iface.
