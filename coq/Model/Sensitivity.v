(* Hand model of bioscrape/analysis.py : SensitivityAnalysis.compute_J / compute_Zj
   (before the final np.round): stencils, perturbation offsets, loop orientation, and the
   sequence of Model.set_params calls (the model's parameter vector is threaded through). *)
From Coq Require Import ZArith List Bool.
From BS Require Import Base.Arith.
Import ListNotations.

Inductive scheme := FourthOrder | Central | Backward | Forward.

Section Sens.
  Context {F : Type} (A : Arith F).
  Notation "a + b" := (fadd A a b). Notation "a * b" := (fmul A a b).
  Notation "a / b" := (fdiv A a b). Notation "a - b" := (fsub A a b).
  Definition lit (z : Z) : F := fofZ A z.

  Definition stencil (sch : scheme) (f2h fh f0 fmh fm2h h : F) : F :=
    match sch with
    | FourthOrder => (fneg A f2h + lit 8 * fh - lit 8 * fmh + fm2h) / (lit 12 * h)
    | Central => (fh - fmh) / (lit 2 * h)
    | Backward => (f0 - fmh) / h
    | Forward => (fh - f0) / h
    end.

  Definition perturb (x : list F) (j : nat) (delta : F) : list F :=
    upd x j (nth j x (f0 A) + delta).
  Definition comp (v : list F) (i : nat) : F := nth i v (f0 A).

  (* compute_J: f evaluates the model's right-hand side at a state (parameters fixed) *)
  Definition J_entry (f : list F -> list F) (x : list F) (h : F) (sch : scheme) (i j : nat) : F :=
    stencil sch (comp (f (perturb x j (lit 2 * h))) i) (comp (f (perturb x j h)) i) (comp (f x) i)
                (comp (f (perturb x j (fneg A h))) i) (comp (f (perturb x j (fneg A (lit 2 * h)))) i) h.
  Definition compute_J (f : list F -> list F) (x : list F) (h : F) (sch : scheme) : list (list F) :=
    map (fun i => map (fun j => J_entry f x h sch i j) (seq 0 (length x))) (seq 0 (length x)).

  (* compute_Zj: g params x = right-hand side; k = index of the named parameter.  The state of
     the model's parameter vector is returned along with Z: every `self.M.set_params(d)` (also the
     one inside _evaluate_model) overwrites it with d. *)
  Definition Z_entry (g : list F -> list F -> list F) (orig : list F) (x : list F) (k : nat) (h : F)
             (sch : scheme) (i : nat) : F * list F :=
    let P d := perturb orig k d in
    let f_0 := comp (g orig x) i in
    let f_h := comp (g (P h) x) i in
    let f_mh := comp (g (P (fneg A h)) x) i in
    match sch with
    | FourthOrder =>
        let f_2h := comp (g (P (lit 2 * h)) x) i in
        let f_m2h := comp (g (P (fneg A (lit 2 * h))) x) i in
        (stencil sch f_2h f_h f_0 f_mh f_m2h h, orig)          (* last call: set_params(original) *)
    | _ => (stencil sch f_0 f_h f_0 f_mh f_0 h, orig)           (* reset after f_mh *)
    end.
  Definition compute_Zj (g : list F -> list F -> list F) (orig : list F) (x : list F) (k : nat) (h : F)
             (sch : scheme) : list F * list F :=
    (* array_f_0 = _evaluate_model(x, original): the model's parameters are original from here on;
       each loop iteration ends with set_params(original) *)
    fold_left (fun acc i => let '(z, p) := Z_entry g orig x k h sch i in (fst acc ++ [z], p))
              (seq 0 (length x)) ([], orig).
End Sens.
