(* Hand models of the partition methods: simulator.pyx PerfectBinomialVolumeSplitter and
   GeneralVolumeSplitter, lineage.pyx LineageVolumeSplitter (binomial / perfect / duplicate species,
   volume modes, partition noise), over an explicit stream of uniforms. *)
From Coq Require Import ZArith List Bool.
From BS Require Import Base.Arith Model.Queue.
Import ListNotations.

Section Split.
  Context {F : Type} (A : Arith F).
  Notation "a + b" := (fadd A a b). Notation "a * b" := (fmul A a b).
  Notation "a / b" := (fdiv A a b). Notation "a - b" := (fsub A a b).
  Definition half_ : F := fofZ A 1 / fofZ A 2.
  Definition eps8 : F := fofZ A 1 / fofZ A 100000000.
  Definition ofZ (z : Z) : F := fofZ A z.
  Definition gx (x : list F) (i : nat) : F := nth i x (f0 A).

  (* one species split binomially: d = binom_rnd_f(m, p), e = m - d *)
  Definition split_binomial (p : F) (de : list F * list F) (i : nat) (u : nat -> F) (pos : nat) : (list F * list F) * nat :=
    let '(b, pos') := binom_rnd_f A (gx (fst de) i) p u pos in
    ((upd (fst de) i b, upd (snd de) i (gx (snd de) i - b)), pos').

  (* GeneralVolumeSplitter's perfect split: amount = int(p*m + 0.5); exact if |p*m - amount| <= 1e-8,
     else round up with probability p *)
  Definition perfect_value_general (p m : F) (u : nat -> F) (pos : nat) : F * nat :=
    let dv := p * m in
    let amount := ofZ (ftrunc A (dv + half_)) in
    if fleb A (fabs A (dv - amount)) eps8 then (amount, pos)
    else if fleb A (u pos) p then (ofZ (ftrunc A dv + 1), S pos) else (ofZ (ftrunc A dv), S pos).
  (* LineageVolumeSplitter's: amount = int(p*m); exact if p*m - amount <= 1e-8 *)
  Definition perfect_value_lineage (p m : F) (u : nat -> F) (pos : nat) : F * nat :=
    let dv := p * m in
    let amount := ofZ (ftrunc A dv) in
    if fleb A (dv - amount) eps8 then (amount, pos)
    else if fleb A (u pos) p then (ofZ (ftrunc A dv + 1), S pos) else (ofZ (ftrunc A dv), S pos).
  Definition split_perfect (pv : F -> F -> (nat -> F) -> nat -> F * nat) (p : F) (de : list F * list F) (i : nat)
             (u : nat -> F) (pos : nat) : (list F * list F) * nat :=
    let '(d, pos') := pv p (gx (fst de) i) u pos in
    ((upd (fst de) i d, upd (snd de) i (gx (snd de) i - d)), pos').

  Definition fold_split (f : list F * list F -> nat -> (nat -> F) -> nat -> (list F * list F) * nat)
             (idx : list nat) (de : list F * list F) (u : nat -> F) (pos : nat) : (list F * list F) * nat :=
    fold_left (fun acc i => f (fst acc) i u (snd acc)) idx (de, pos).

  Record daughters := mkD { d_state : list F; d_vol : F; e_state : list F; e_vol : F; d_pos : nat }.

  (* PerfectBinomialVolumeSplitter: halves the volume, every species binomial(1/2) in index order *)
  Definition partition_perfect_binomial (x : list F) (V : F) (u : nat -> F) (pos : nat) : daughters :=
    let '(de, pos') := fold_split (split_binomial half_) (seq 0 (length x)) (x, x) u pos in
    mkD (fst de) (V / fofZ A 2) (snd de) (V / fofZ A 2) pos'.

  (* GeneralVolumeSplitter: p = 0.5 - u*noise; perfect species, then binomial species; duplicates untouched *)
  Definition partition_general (perfect binomial : list nat) (noise : F) (x : list F) (V : F) (u : nat -> F) (pos : nat) : daughters :=
    let p := half_ - u pos * noise in
    let q := fofZ A 1 - p in
    let '(de1, pos1) := fold_split (split_perfect perfect_value_general p) perfect (x, x) u (S pos) in
    let '(de2, pos2) := fold_split (split_binomial p) binomial de1 u pos1 in
    mkD (fst de2) (V * p) (snd de2) (V * q) pos2.

  (* LineageVolumeSplitter: volume mode 0 binomial (p = 0.5 - u*noise/2), 1 duplicate (p = q = 1), 2 perfect (1/2, 1/2) *)
  Definition partition_lineage (vmode : nat) (perfect binomial : list nat) (noise : F) (x : list F) (V : F) (u : nat -> F) (pos : nat) : daughters :=
    let '(p, vd, ve, pos0) :=
      match vmode with
      | O => let p := half_ - u pos * noise / fofZ A 2 in (p, V * p, V * (fofZ A 1 - p), S pos)
      | S O => (fofZ A 1, V, V, pos)
      | _ => (half_, V * half_, V * half_, pos)
      end in
    let '(de1, pos1) := fold_split (split_perfect perfect_value_lineage p) perfect (x, x) u pos0 in
    let '(de2, pos2) := fold_split (split_binomial p) binomial de1 u pos1 in
    mkD (fst de2) vd (snd de2) ve pos2.
End Split.
