(* Hand model of the Propensity classes of bioscrape/types.pyx: eight rate laws, four
   evaluation modes, with the operation order of the code (so the double-precision instance is
   comparable bit for bit), and create_propensity's dispatch of 'massaction' by reactant count. *)
From Coq Require Import ZArith List Bool.
From BS Require Import Base.Arith Model.Term.
Import ListNotations.

Inductive mode := Det | Vol | Stoch | StochVol.

Inductive prop (F : Type) : Type :=
| PConst (k : nat)
| PUni (k s : nat)
| PBi (k s1 s2 : nat)
| PHillPos (k K n s1 : nat)
| PPropHillPos (k K n s1 d : nat)
| PHillNeg (k K n s1 : nat)
| PPropHillNeg (k K n s1 d : nat)
| PMass (k : nat) (inds counts : list nat)     (* sp_inds, sp_counts; num_species = sum counts *)
| PGeneral (tm : term F).
Arguments PConst {F}. Arguments PUni {F}. Arguments PBi {F}. Arguments PHillPos {F}.
Arguments PPropHillPos {F}. Arguments PHillNeg {F}. Arguments PPropHillNeg {F}.
Arguments PMass {F}. Arguments PGeneral {F}.

Section PropEval.
  Context {F : Type} (A : Arith F).
  Notation "a + b" := (fadd A a b). Notation "a * b" := (fmul A a b).
  Notation "a / b" := (fdiv A a b). Notation "a - b" := (fsub A a b).
  Notation one := (fofZ A 1). Notation zero := (fofZ A 0).

  (* Python's max(a, b): b if b > a else a *)
  Definition pymax (a b : F) : F := if fltb A a b then b else a.
  Definition ofnat (n : nat) : F := fofZ A (Z.of_nat n).

  Definition hill_pow (X K n : F) : F := fpow A (X / K) n.

  (* MassActionPropensity.get_propensity: for i: for j in range(sp_counts[i]): ans *= state[sp_inds[i]] *)
  Definition mass_det (k : F) (inds counts : list nat) (x : list F) : F :=
    fold_left (fun ans ic => fold_left (fun a _ => a * getv A x (fst ic)) (seq 0 (snd ic)) ans)
              (combine inds counts) k.
  (* get_stochastic_propensity: ans *= max(state[i] - j, 0) *)
  Definition mass_stoch (k : F) (inds counts : list nat) (x : list F) : F :=
    fold_left (fun ans ic => fold_left (fun a j => a * pymax (getv A x (fst ic) - ofnat j) zero) (seq 0 (snd ic)) ans)
              (combine inds counts) k.
  Definition num_species (counts : list nat) : Z := Z.of_nat (fold_left Nat.add counts 0%nat).
  Definition vol_div (v : F) (V : F) (counts : list nat) : F :=
    v / fpow A V (fofZ A (num_species counts - 1)).

  Definition prop_eval (pr : prop F) (m : mode) (x p : list F) (V t : F) : F :=
    let X i := getv A x i in let P i := getv A p i in
    match pr with
    | PConst k => match m with Det | Stoch => P k | Vol | StochVol => P k * V end
    | PUni k s => P k * X s
    | PBi k s1 s2 =>
        let det := P k * X s1 * X s2 in
        let sto := if Nat.eqb s1 s2 then P k * X s1 * pymax (X s1 - one) zero else det in
        match m with Det => det | Vol => det / V | Stoch => sto | StochVol => sto / V end
    | PHillPos k K n s1 =>
        let Xc := match m with Det | Stoch => X s1 | Vol | StochVol => X s1 / V end in
        P k * hill_pow Xc (P K) (P n) / (one + hill_pow Xc (P K) (P n))
    | PPropHillPos k K n s1 d =>
        match m with
        | Det | Stoch => P k * X d * hill_pow (X s1) (P K) (P n) / (one + hill_pow (X s1) (P K) (P n))
        | Vol | StochVol => X d * P k * hill_pow (X s1 / V) (P K) (P n) / (one + hill_pow (X s1 / V) (P K) (P n))
        end
    | PHillNeg k K n s1 =>
        let Xc := match m with Det | Stoch => X s1 | Vol | StochVol => X s1 / V end in
        P k * one / (one + hill_pow Xc (P K) (P n))
    | PPropHillNeg k K n s1 d =>
        match m with
        | Det | Stoch => P k * X d * one / (one + hill_pow (X s1) (P K) (P n))
        | Vol | StochVol => X d * P k * one / (one + hill_pow (X s1 / V) (P K) (P n))
        end
    | PMass k inds counts =>
        match m with
        | Det => mass_det (P k) inds counts x
        | Stoch => mass_stoch (P k) inds counts x
        | Vol => vol_div (mass_det (P k) inds counts x) V counts
        | StochVol => vol_div (mass_stoch (P k) inds counts x) V counts
        end
    | PGeneral tm =>
        match m with
        | Det | Stoch => teval A None x p t tm
        | Vol | StochVol => teval A (Some V) x p t tm
        end
    end.
End PropEval.

(* MassActionPropensity.initialize: first-occurrence order with counts *)
Fixpoint bump (inds counts : list nat) (s : nat) : list nat * list nat :=
  match inds, counts with
  | i :: inds', c :: counts' =>
      if Nat.eqb i s then (inds, S c :: counts')
      else let '(a, b) := bump inds' counts' s in (i :: a, c :: b)
  | _, _ => ([s], [1%nat])
  end.
Definition multiplicity_table (rs : list nat) : list nat * list nat :=
  fold_left (fun ic s => bump (fst ic) (snd ic) s) rs ([], []).

(* Model.create_propensity for 'massaction' with species list rs (indices), rate parameter k *)
Definition massaction_dispatch {F} (k : nat) (rs : list nat) : prop F :=
  match rs with
  | [] => PConst k
  | [s] => PUni k s
  | [s1; s2] => PBi k s1 s2
  | _ => let '(inds, counts) := multiplicity_table rs in PMass k inds counts
  end.
