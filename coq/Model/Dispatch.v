(* Hand model of simulator.pyx : py_simulate_model's option handling: which combination is
   rejected with an error about the options, which simulator runs, with which interface, and
   whether a name used later is bound (an unbound name is an InternalFault). *)
From Coq Require Import List Bool.
Import ListNotations.

Inductive vol_opt := VOff | VTrue | VNumPos | VNumNonPos | VObj.
Inductive tri := TNone | TFalse | TTrue.
Record opts := mkOpts {
  o_model : bool; o_iface : bool; o_stoch : bool; o_delay : tri; o_safe : bool; o_vol : vol_opt; o_df : bool
}.
Inductive sim_kind := KDet | KSSA | KVolSSA | KDelaySSA | KDelayVolSSA.
Inductive verdict :=
| RejectOptions                       (* ValueError about the options *)
| Run (k : sim_kind) (safe_interface : bool) (labelled : bool)
| InternalFault (what : nat).         (* 1: `v` unbound; 2: abstract simulator instantiated *)

(* is `v` bound after the "Create Volume" block, and is it None? *)
Inductive vbind := VUnbound | VIsNone | VIsSome.
Definition bind_volume (vo : vol_opt) : vbind :=
  match vo with
  | VObj => VIsSome            (* v = volume *)
  | VOff => VIsNone            (* volume == False (also 0) *)
  | VTrue => VIsSome
  | VNumPos => VIsSome
  | VNumNonPos => VUnbound     (* `if volume > 0` is false and nothing else assigns v *)
  end.

Definition dispatch (o : opts) : verdict :=
  if negb (o_model o) && negb (o_iface o) then RejectOptions
  else if o_model o && o_iface o then RejectOptions
  else
    let safe_if := o_safe o && o_model o in          (* a pre-built interface is used as it is *)
    let labelled := o_model o in                     (* py_get_dataframe(Model = Model) *)
    match o_delay o with
    | TTrue =>
        match bind_volume (o_vol o) with
        | VUnbound => InternalFault 1
        | VIsNone => Run KDelaySSA safe_if labelled
        | VIsSome => Run KDelayVolSSA safe_if labelled
        end
    | _ =>
        if o_stoch o then
          match bind_volume (o_vol o) with
          | VUnbound => InternalFault 1
          | VIsNone => Run KSSA safe_if labelled
          | VIsSome => Run KVolSSA safe_if labelled
          end
        else
          match bind_volume (o_vol o) with
          | VUnbound => InternalFault 1
          | _ => Run KDet safe_if labelled
          end
    end.

Definition all_bool := [true; false].
Definition all_opts : list opts :=
  flat_map (fun m => flat_map (fun i => flat_map (fun s => flat_map (fun d => flat_map (fun sf =>
  flat_map (fun v => map (fun df => mkOpts m i s d sf v df) all_bool)
    [VOff; VTrue; VNumPos; VNumNonPos; VObj]) all_bool) [TNone; TFalse; TTrue]) all_bool) all_bool) all_bool.

Definition in_quantifier (o : opts) : bool :=
  match o_vol o with VNumNonPos => false | _ => true end.
Definition is_fault (v : verdict) : bool := match v with InternalFault _ => true | _ => false end.
