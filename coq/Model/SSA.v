(* Hand models of the event loops of bioscrape/simulator.pyx:
   SSASimulator.simulate, DelaySSASimulator.delay_simulate, VolumeSSASimulator.volume_simulate.
   Loops run on fuel; the random stream is an argument. *)
From Coq Require Import ZArith List Bool.
From BS Require Import Base.Arith Model.Term Model.Propensity Model.Interface Model.Rules Model.Random Model.Queue.
Import ListNotations.

Inductive delay_kind := DNone | DFixed (i : nat) | DGaussian (mean std : nat) | DGamma (k theta : nat).

Record sim (F : Type) := mkSimulation {
  sm_if : simif F;                 (* propensities, S, Sd, parameter vector (shared with the model) *)
  sm_rules : list (rule F);
  sm_delays : list delay_kind;
  sm_dt : F; sm_t0 : F;
  sm_safe : bool;
  sm_x0 : list F
}.
Arguments mkSimulation {F}. Arguments sm_if {F}. Arguments sm_rules {F}. Arguments sm_delays {F}.
Arguments sm_dt {F}. Arguments sm_t0 {F}. Arguments sm_safe {F}. Arguments sm_x0 {F}.

Inductive outcome (T : Type) := Done (r : T) | OutOfFuel | Fault (why : nat).
Arguments Done {T}. Arguments OutOfFuel {T}. Arguments Fault {T}.
(* Fault codes: 1 = sample_discrete returned an index outside the reactions (selection draw of exactly 0),
   2 = gamma sampler out of fuel, 3 = queue insertion out of range *)

Section Loops.
  Context {F : Type} (A : Arith F) (pi2 : F).

  Definition with_params (si : simif F) (p : list F) : simif F :=
    mkSim (si_props si) (si_S si) (si_Sd si) p (si_nspecies si).

  Definition stoch_props (s : sim F) (m : mode) (x p : list F) (V t : F) : list F :=
    if sm_safe s then compute_safe A (with_params (sm_if s) p) m x V t
    else compute_plain A (with_params (sm_if s) p) m x V t.

  (* x += column r of a species-major matrix *)
  Definition add_col (x : list F) (S : list (list Z)) (r : nat) : list F :=
    map (fun xs => fadd A (fst xs) (fofZ A (nth r (snd xs) 0%Z))) (combine x S).
  Definition add_col2 (x : list F) (S Sd : list (list Z)) (r : nat) : list F :=
    (* c_stoich = update_array + delay_update_array, added as one double *)
    map (fun xs => fadd A (fst (fst xs)) (fofZ A (nth r (snd (fst xs)) 0 + nth r (snd xs) 0)%Z))
        (combine (combine x S) Sd).

  (* "while current_index < n and T[idx] <= current_time: record; idx++" *)
  Fixpoint record (ts : list F) (time : F) (row : list F) : list (list F) * list F :=
    match ts with
    | [] => ([], [])
    | t :: rest => if fleb A t time then let '(rows, rem) := record rest time row in (row :: rows, rem)
                   else ([], ts)
    end.

  (* ---------------- SSASimulator ---------------- *)
  Record ssa_state := mkSsa {
    ss_time : F; ss_todo : list F;        (* remaining grid times *)
    ss_x : list F; ss_p : list F; ss_rule_step : bool; ss_pos : nat;
    ss_rows : list (list F)               (* recorded rows, oldest first *)
  }.

  Definition ssa_iter (s : sim F) (u : nat -> F) (st : ssa_state) : outcome ssa_state :=
    match ss_todo st with
    | [] => Done st
    | tnext :: _ =>
      let '(x1, p1) := apply_rules A (sm_rules s) None (ss_x st, ss_p st) (ss_time st) (sm_dt s) (ss_rule_step st) in
      let props := stoch_props s Stoch x1 p1 (f1 A) (ss_time st) in
      let Lambda := array_sum A props in
      let '(proposed, fired, rs, pos1) :=
        if feqb A Lambda (f0 A) then (tnext, false, true, ss_pos st)
        else let '(tau, pos') := exponential_rv A Lambda u (ss_pos st) in (fadd A (ss_time st) tau, true, false, pos') in
      let '(time', fired, rs) := if fltb A tnext proposed then (tnext, false, true) else (proposed, fired, rs) in
      let '(rows, rem) := record (ss_todo st) time' x1 in
      if fltb A (f0 A) Lambda && fired then
        let '(choice, pos2) := sample_discrete A props Lambda u pos1 in
        if (choice <? 0)%Z || (Z.of_nat (length props) <=? choice)%Z then Fault 1
        else Done (mkSsa time' rem (add_col2 x1 (si_S (sm_if s)) (si_Sd (sm_if s)) (Z.to_nat choice)) p1 rs pos2 (ss_rows st ++ rows))
      else Done (mkSsa time' rem x1 p1 rs pos1 (ss_rows st ++ rows))
    end.

  Fixpoint ssa_loop (fuel : nat) (s : sim F) (u : nat -> F) (st : ssa_state) : outcome ssa_state :=
    match ss_todo st with
    | [] => Done st
    | _ => match fuel with
           | O => OutOfFuel
           | S fuel' => match ssa_iter s u st with
                        | Done st' => ssa_loop fuel' s u st'
                        | OutOfFuel => OutOfFuel | Fault w => Fault w
                        end
           end
    end.

  Definition ssa_init (s : sim F) (ts : list F) (pos : nat) : ssa_state :=
    mkSsa (sm_t0 s) ts (sm_x0 s) (si_params (sm_if s)) true pos [].
  Definition ssa_simulate (fuel : nat) (s : sim F) (ts : list F) (u : nat -> F) (pos : nat) :=
    ssa_loop fuel s u (ssa_init s ts pos).

  (* ---------------- delays ---------------- *)
  Definition compute_delay (gfuel : nat) (d : delay_kind) (p : list F) (u : nat -> F) (pos : nat) : option (F * nat) :=
    match d with
    | DNone => Some (f0 A, pos)
    | DFixed i => Some (getv A p i, pos)
    | DGaussian m sd => Some (normal_rv A pi2 (getv A p m) (getv A p sd) u pos)
    | DGamma k th => gamma_rv A pi2 gfuel (getv A p k) (getv A p th) u pos
    end.

  (* ---------------- DelaySSASimulator ---------------- *)
  Record dssa_state := mkDssa {
    ds_time : F; ds_todo : list F; ds_x : list F; ds_p : list F; ds_rule_step : bool; ds_pos : nat;
    ds_rows : list (list F); ds_q : queue F F
  }.

  (* state += sum_r amt_r * Sd[:, r]  (loop order: for reaction: for species) *)
  Definition deliver (x : list F) (Sd : list (list Z)) (amts : list F) : list F :=
    fold_left (fun xacc ra =>
                 map (fun xs => fadd A (fst xs) (fmul A (snd ra) (fofZ A (nth (fst ra) (snd xs) 0%Z)))) (combine xacc Sd))
              (combine (seq 0 (length amts)) amts) x.

  Definition dssa_iter (gfuel : nat) (s : sim F) (u : nat -> F) (st : dssa_state) : outcome dssa_state :=
    match ds_todo st with
    | [] => Done st
    | tnext :: _ =>
      let '(x1, p1) := apply_rules A (sm_rules s) None (ds_x st, ds_p st) (ds_time st) (sm_dt s) (ds_rule_step st) in
      let props := stoch_props s Stoch x1 p1 (f1 A) (ds_time st) in
      let Lambda := array_sum A props in
      let '(proposed, fired, rs, pos1) :=
        if feqb A Lambda (f0 A) then (tnext, false, true, ds_pos st)
        else let '(tau, pos') := exponential_rv A Lambda u (ds_pos st) in (fadd A (ds_time st) tau, true, false, pos') in
      let '(proposed, fired, rs) := if fltb A tnext proposed then (tnext, false, true) else (proposed, fired, rs) in
      let qt := q_next_time (ds_q st) in
      let '(time', to_queue, fired, rs) :=
        if fltb A qt proposed then (qt, true, false, false) else (proposed, false, fired, rs) in
      let '(rows, rem) := record (ds_todo st) time' x1 in
      if to_queue then
        let amts := q_peek (f0 A) (ds_q st) in
        Done (mkDssa time' rem (deliver x1 (si_Sd (sm_if s)) amts) p1 rs pos1 (ds_rows st ++ rows) (q_advance A (f0 A) (ds_q st)))
      else if fired then
        let '(choice, pos2) := sample_discrete A props Lambda u pos1 in
        if (choice <? 0)%Z || (Z.of_nat (length props) <=? choice)%Z then Fault 1
        else
          let r := Z.to_nat choice in
          match compute_delay gfuel (nth r (sm_delays s) DNone) p1 u pos2 with
          | None => Fault 2
          | Some (dl, pos3) =>
            let x2 := add_col x1 (si_S (sm_if s)) r in
            if fltb A (f0 A) dl then
              match q_add A (fadd A) (ds_q st) (fadd A time' dl) r (f1 A) with
              | None => Fault 3
              | Some q' => Done (mkDssa time' rem x2 p1 rs pos3 (ds_rows st ++ rows) q')
              end
            else Done (mkDssa time' rem (add_col x2 (si_Sd (sm_if s)) r) p1 rs pos3 (ds_rows st ++ rows) (ds_q st))
          end
      else Done (mkDssa time' rem x1 p1 rs pos1 (ds_rows st ++ rows) (ds_q st))
    end.

  Fixpoint dssa_loop (fuel gfuel : nat) (s : sim F) (u : nat -> F) (st : dssa_state) : outcome dssa_state :=
    match ds_todo st with
    | [] => Done st
    | _ => match fuel with
           | O => OutOfFuel
           | S fuel' => match dssa_iter gfuel s u st with
                        | Done st' => dssa_loop fuel' gfuel s u st'
                        | OutOfFuel => OutOfFuel | Fault w => Fault w
                        end
           end
    end.

  Definition dssa_simulate (fuel gfuel : nat) (s : sim F) (q : queue F F) (ts : list F) (u : nat -> F) (pos : nat) :=
    dssa_loop fuel gfuel s u
      (mkDssa (sm_t0 s) ts (sm_x0 s) (si_params (sm_if s)) true pos [] (q_set_time A q (sm_t0 s))).

  (* ---------------- volumes ---------------- *)
  Inductive volmodel :=
  | VBase                                           (* Volume(): step 0, never divides *)
  | VTimeThreshold (growth_rate division_time : F)  (* StochasticTimeThresholdVolume after initialize *)
  | VStateDep (growth : term F) (division_volume : F).

  Definition vol_step (vm : volmodel) (x p : list F) (t V dt : F) : F :=
    match vm with
    | VBase => f0 A
    | VTimeThreshold g _ => fmul A (fsub A (fexp A (fmul A g dt)) (f1 A)) V
    | VStateDep gr _ => fmul A (fsub A (fexp A (fmul A (teval A None x p t gr) dt)) (f1 A)) V
    end.
  Definition vol_divided (vm : volmodel) (t V dt : F) : bool :=
    match vm with
    | VBase => false
    | VTimeThreshold _ dtime => fltb A (fsub A t dt) dtime && fleb A dtime t
    | VStateDep _ dv => fltb A dv V
    end.

  (* ---------------- VolumeSSASimulator ---------------- *)
  Record vssa_state := mkVssa {
    vs_time : F; vs_todo : list F; vs_x : list F; vs_p : list F; vs_rule_step : bool; vs_pos : nat;
    vs_rows : list (list F); vs_vols : list F; vs_next_q : F; vs_V : F; vs_divided : bool
  }.

  Definition vssa_iter (s : sim F) (vm : volmodel) (u : nat -> F) (st : vssa_state) : outcome vssa_state :=
    match vs_todo st with
    | [] => Done st
    | tnext :: _ =>
      let V := vs_V st in
      let '(x1, p1) := apply_rules A (sm_rules s) (Some V) (vs_x st, vs_p st) (vs_time st) (sm_dt s) (vs_rule_step st) in
      let props := stoch_props s StochVol x1 p1 V (vs_time st) in
      let Lambda := array_sum A props in
      let '(proposed, fired, rs, toq, pos1) :=
        if feqb A Lambda (f0 A) then (fadd A (vs_next_q st) (sm_dt s), false, true, true, vs_pos st)   (* nothing can fire before the next volume step *)
        else let '(tau, pos') := exponential_rv A Lambda u (vs_pos st) in (fadd A (vs_time st) tau, true, false, false, pos') in
      let '(time', nq, toq, fired, rs) :=
        if fltb A (vs_next_q st) proposed then (vs_next_q st, fadd A (vs_next_q st) (sm_dt s), true, false, true)
        else (proposed, vs_next_q st, toq, fired, rs) in
      let '(rows, rem) := record (vs_todo st) time' x1 in
      let vols := map (fun _ => V) rows in
      if toq then
        let V' := fadd A V (vol_step vm x1 p1 time' V (sm_dt s)) in
        Done (mkVssa time' (if vol_divided vm time' V' (sm_dt s) then [] else rem) x1 p1 rs pos1
                     (vs_rows st ++ rows) (vs_vols st ++ vols) nq V' (vol_divided vm time' V' (sm_dt s)))
      else if fired then
        let '(choice, pos2) := sample_discrete A props Lambda u pos1 in
        if (choice <? 0)%Z || (Z.of_nat (length props) <=? choice)%Z then Fault 1
        else Done (mkVssa time' rem (add_col2 x1 (si_S (sm_if s)) (si_Sd (sm_if s)) (Z.to_nat choice)) p1 rs pos2
                          (vs_rows st ++ rows) (vs_vols st ++ vols) nq V false)
      else Done (mkVssa time' rem x1 p1 rs pos1 (vs_rows st ++ rows) (vs_vols st ++ vols) nq V false)
    end.

  Fixpoint vssa_loop (fuel : nat) (s : sim F) (vm : volmodel) (u : nat -> F) (st : vssa_state) : outcome vssa_state :=
    match vs_todo st with
    | [] => Done st
    | _ => match fuel with
           | O => OutOfFuel
           | S fuel' => match vssa_iter s vm u st with
                        | Done st' => vssa_loop fuel' s vm u st'
                        | OutOfFuel => OutOfFuel | Fault w => Fault w
                        end
           end
    end.

  Definition vssa_simulate (fuel : nat) (s : sim F) (vm : volmodel) (V0 : F) (ts : list F) (u : nat -> F) (pos : nat) :=
    vssa_loop fuel s vm u
      (mkVssa (sm_t0 s) ts (sm_x0 s) (si_params (sm_if s)) true pos [] [] (fadd A (sm_dt s) (sm_t0 s)) V0 false).

  (* ---------------- DelayVolumeSSASimulator ---------------- *)
  Record dvssa_state := mkDvssa {
    dv_time : F; dv_todo : list F; dv_x : list F; dv_p : list F; dv_rule_step : bool; dv_pos : nat;
    dv_rows : list (list F); dv_vols : list F; dv_q : queue F F; dv_next_vol : F; dv_V : F; dv_divided : bool
  }.

  Definition dvssa_iter (gfuel : nat) (s : sim F) (vm : volmodel) (u : nat -> F) (st : dvssa_state) : outcome dvssa_state :=
    match dv_todo st with
    | [] => Done st
    | tnext :: _ =>
      let V := dv_V st in
      let '(x1, p1) := apply_rules A (sm_rules s) (Some V) (dv_x st, dv_p st) (dv_time st) (sm_dt s) (dv_rule_step st) in
      let props := stoch_props s StochVol x1 p1 V (dv_time st) in
      let Lambda := array_sum A props in
      let '(proposed, rs, pos1) :=
        if feqb A Lambda (f0 A) then (tnext, true, dv_pos st)
        else let '(tau, pos') := exponential_rv A Lambda u (dv_pos st) in (fadd A (dv_time st) tau, false, pos') in
      let nqr := q_next_time (dv_q st) in
      (* step: 0 reaction, 1 volume step, 2 queue slot, 3 nothing (only the move to the time point) *)
      let '(time', nv, step, rs) :=
        if fltb A proposed (dv_next_vol st) && fltb A proposed nqr then (proposed, dv_next_vol st, (if feqb A Lambda (f0 A) then 3 else 0)%nat, false)   (* no dt step has elapsed: rule_step is cleared also for the bare move to a time point *)
        else if fltb A (dv_next_vol st) nqr then (dv_next_vol st, fadd A (dv_next_vol st) (sm_dt s), 1%nat, true)
        else (nqr, dv_next_vol st, 2%nat, false) in
      let '(rows, rem) := record (dv_todo st) time' x1 in
      let vols := map (fun _ => V) rows in
      match step with
      | O =>
        let '(choice, pos2) := sample_discrete A props Lambda u pos1 in
        if (choice <? 0)%Z || (Z.of_nat (length props) <=? choice)%Z then Fault 1
        else
          let r := Z.to_nat choice in
          match compute_delay gfuel (nth r (sm_delays s) DNone) p1 u pos2 with
          | None => Fault 2
          | Some (dl, pos3) =>
            let x2 := add_col x1 (si_S (sm_if s)) r in
            if fltb A (f0 A) dl then
              match q_add A (fadd A) (dv_q st) (fadd A time' dl) r (f1 A) with
              | None => Fault 3
              | Some q' => Done (mkDvssa time' rem x2 p1 rs pos3 (dv_rows st ++ rows) (dv_vols st ++ vols) q' nv V false)
              end
            else Done (mkDvssa time' rem (add_col x2 (si_Sd (sm_if s)) r) p1 rs pos3 (dv_rows st ++ rows) (dv_vols st ++ vols) (dv_q st) nv V false)
          end
      | S O =>
        let V' := fadd A V (vol_step vm x1 p1 time' V (sm_dt s)) in
        let dvd := vol_divided vm time' V' (sm_dt s) in
        Done (mkDvssa time' (if dvd then [] else rem) x1 p1 rs pos1 (dv_rows st ++ rows) (dv_vols st ++ vols) (dv_q st) nv V' dvd)
      | S (S O) =>
        match rem with
        | [] => (* the last requested time has just been recorded: what is due now stays queued *)
          Done (mkDvssa time' rem x1 p1 rs pos1 (dv_rows st ++ rows) (dv_vols st ++ vols) (dv_q st) nv V false)
        | _ :: _ =>
          let amts := q_peek (f0 A) (dv_q st) in
          Done (mkDvssa time' rem (deliver x1 (si_Sd (sm_if s)) amts) p1 rs pos1 (dv_rows st ++ rows) (dv_vols st ++ vols)
                        (q_advance A (f0 A) (dv_q st)) nv V false)
        end
      | _ => Done (mkDvssa time' rem x1 p1 rs pos1 (dv_rows st ++ rows) (dv_vols st ++ vols) (dv_q st) nv V false)
      end
    end.

  Fixpoint dvssa_loop (fuel gfuel : nat) (s : sim F) (vm : volmodel) (u : nat -> F) (st : dvssa_state) : outcome dvssa_state :=
    match dv_todo st with
    | [] => Done st
    | _ => match fuel with
           | O => OutOfFuel
           | S fuel' => match dvssa_iter gfuel s vm u st with
                        | Done st' => dvssa_loop fuel' gfuel s vm u st'
                        | OutOfFuel => OutOfFuel | Fault w => Fault w
                        end
           end
    end.

  Definition dvssa_simulate (fuel gfuel : nat) (s : sim F) (vm : volmodel) (V0 : F) (q : queue F F) (ts : list F) (u : nat -> F) (pos : nat) :=
    dvssa_loop fuel gfuel s vm u
      (mkDvssa (sm_t0 s) ts (sm_x0 s) (si_params (sm_if s)) true pos [] [] q (fadd A (sm_dt s) (sm_t0 s)) V0 false).
End Loops.
