
type nat =
| O
| S of nat

(** val snd : ('a1 * 'a2) -> 'a2 **)

let snd = function
| (_, y) -> y

(** val length : 'a1 list -> nat **)

let rec length = function
| [] -> O
| _ :: l' -> S (length l')

(** val app : 'a1 list -> 'a1 list -> 'a1 list **)

let rec app l m =
  match l with
  | [] -> m
  | a :: l1 -> a :: (app l1 m)

type comparison =
| Eq
| Lt
| Gt

(** val compOpp : comparison -> comparison **)

let compOpp = function
| Eq -> Eq
| Lt -> Gt
| Gt -> Lt

(** val add : nat -> nat -> nat **)

let rec add n m =
  match n with
  | O -> m
  | S p -> S (add p m)

(** val sub : nat -> nat -> nat **)

let rec sub n m =
  match n with
  | O -> n
  | S k -> (match m with
            | O -> n
            | S l -> sub k l)

type positive =
| XI of positive
| XO of positive
| XH

type z =
| Z0
| Zpos of positive
| Zneg of positive

module Nat =
 struct
  (** val sub : nat -> nat -> nat **)

  let rec sub n m =
    match n with
    | O -> n
    | S k -> (match m with
              | O -> n
              | S l -> sub k l)

  (** val divmod : nat -> nat -> nat -> nat -> nat * nat **)

  let rec divmod x y q u =
    match x with
    | O -> (q, u)
    | S x' ->
      (match u with
       | O -> divmod x' y (S q) y
       | S u' -> divmod x' y q u')

  (** val modulo : nat -> nat -> nat **)

  let modulo x = function
  | O -> x
  | S y' -> sub y' (snd (divmod x y' O y'))
 end

module Pos =
 struct
  (** val succ : positive -> positive **)

  let rec succ = function
  | XI p -> XO (succ p)
  | XO p -> XI p
  | XH -> XO XH

  (** val compare_cont : comparison -> positive -> positive -> comparison **)

  let rec compare_cont r x y =
    match x with
    | XI p ->
      (match y with
       | XI q -> compare_cont r p q
       | XO q -> compare_cont Gt p q
       | XH -> Gt)
    | XO p ->
      (match y with
       | XI q -> compare_cont Lt p q
       | XO q -> compare_cont r p q
       | XH -> Gt)
    | XH -> (match y with
             | XH -> r
             | _ -> Lt)

  (** val compare : positive -> positive -> comparison **)

  let compare =
    compare_cont Eq

  (** val iter_op : ('a1 -> 'a1 -> 'a1) -> positive -> 'a1 -> 'a1 **)

  let rec iter_op op p a =
    match p with
    | XI p0 -> op a (iter_op op p0 (op a a))
    | XO p0 -> iter_op op p0 (op a a)
    | XH -> a

  (** val to_nat : positive -> nat **)

  let to_nat x =
    iter_op add x (S O)

  (** val of_succ_nat : nat -> positive **)

  let rec of_succ_nat = function
  | O -> XH
  | S x -> succ (of_succ_nat x)
 end

module Z =
 struct
  (** val compare : z -> z -> comparison **)

  let compare x y =
    match x with
    | Z0 -> (match y with
             | Z0 -> Eq
             | Zpos _ -> Lt
             | Zneg _ -> Gt)
    | Zpos x' -> (match y with
                  | Zpos y' -> Pos.compare x' y'
                  | _ -> Gt)
    | Zneg x' ->
      (match y with
       | Zneg y' -> compOpp (Pos.compare x' y')
       | _ -> Lt)

  (** val ltb : z -> z -> bool **)

  let ltb x y =
    match compare x y with
    | Lt -> true
    | _ -> false

  (** val geb : z -> z -> bool **)

  let geb x y =
    match compare x y with
    | Lt -> false
    | _ -> true

  (** val to_nat : z -> nat **)

  let to_nat = function
  | Zpos p -> Pos.to_nat p
  | _ -> O

  (** val of_nat : nat -> z **)

  let of_nat = function
  | O -> Z0
  | S n0 -> Zpos (Pos.of_succ_nat n0)
 end

(** val nth : nat -> 'a1 list -> 'a1 -> 'a1 **)

let rec nth n l default =
  match n with
  | O -> (match l with
          | [] -> default
          | x :: _ -> x)
  | S m -> (match l with
            | [] -> default
            | _ :: t -> nth m t default)

(** val nth_error : 'a1 list -> nat -> 'a1 option **)

let rec nth_error l = function
| O -> (match l with
        | [] -> None
        | x :: _ -> Some x)
| S n0 -> (match l with
           | [] -> None
           | _ :: l0 -> nth_error l0 n0)

(** val map : ('a1 -> 'a2) -> 'a1 list -> 'a2 list **)

let rec map f = function
| [] -> []
| a :: t -> (f a) :: (map f t)

(** val flat_map : ('a1 -> 'a2 list) -> 'a1 list -> 'a2 list **)

let rec flat_map f = function
| [] -> []
| x :: t -> app (f x) (flat_map f t)

(** val seq : nat -> nat -> nat list **)

let rec seq start = function
| O -> []
| S len0 -> start :: (seq (S start) len0)

(** val repeat : 'a1 -> nat -> 'a1 list **)

let rec repeat x = function
| O -> []
| S k -> x :: (repeat x k)

type 'f arith = { f0 : 'f; f1 : 'f; fadd : ('f -> 'f -> 'f);
                  fsub : ('f -> 'f -> 'f); fmul : ('f -> 'f -> 'f);
                  fdiv : ('f -> 'f -> 'f); fneg : ('f -> 'f);
                  fabs : ('f -> 'f); fofZ : (z -> 'f);
                  fltb : ('f -> 'f -> bool); fleb : ('f -> 'f -> bool);
                  feqb : ('f -> 'f -> bool); fpow : ('f -> 'f -> 'f);
                  fexp : ('f -> 'f); flog : ('f -> 'f); fcos : ('f -> 'f);
                  fsqrt : ('f -> 'f); ftrunc : ('f -> z);
                  fisnan : ('f -> bool) }

(** val upd : 'a1 list -> nat -> 'a1 -> 'a1 list **)

let rec upd l i v =
  match l with
  | [] -> []
  | h :: t -> (match i with
               | O -> v :: t
               | S j -> h :: (upd t j v))

type ('f, 'm) queue = { q_cells : 'm list list; q_ncols : nat; q_start : 
                        nat; q_next : 'f; q_dt : 'f }

(** val half : 'a1 arith -> 'a1 **)

let half a =
  a.fdiv (a.fofZ (Zpos XH)) (a.fofZ (Zpos (XO XH)))

(** val q_make :
    'a1 arith -> 'a2 -> nat -> nat -> 'a1 -> 'a1 -> ('a1, 'a2) queue **)

let q_make a mzero nrx ncols dt t =
  { q_cells = (repeat (repeat mzero ncols) nrx); q_ncols = ncols; q_start =
    O; q_next = (a.fadd t dt); q_dt = dt }

(** val q_raw_index : 'a1 arith -> ('a1, 'a2) queue -> 'a1 -> z **)

let q_raw_index a q time =
  a.ftrunc (a.fadd (a.fdiv (a.fsub time q.q_next) q.q_dt) (half a))

(** val q_offset : 'a1 arith -> ('a1, 'a2) queue -> 'a1 -> nat **)

let q_offset a q time =
  let i = q_raw_index a q time in
  if Z.ltb i Z0
  then O
  else if Z.geb i (Z.of_nat q.q_ncols)
       then sub q.q_ncols (S O)
       else Z.to_nat i

(** val q_slot : ('a1, 'a2) queue -> nat -> nat **)

let q_slot q off =
  Nat.modulo (add off q.q_start) q.q_ncols

(** val row_add :
    ('a1 -> 'a1 -> 'a1) -> 'a1 list -> nat -> 'a1 -> 'a1 list **)

let row_add madd row c a =
  match nth_error row c with
  | Some v -> upd row c (madd v a)
  | None -> row

(** val q_add :
    'a1 arith -> ('a2 -> 'a2 -> 'a2) -> ('a1, 'a2) queue -> 'a1 -> nat -> 'a2
    -> ('a1, 'a2) queue option **)

let q_add a madd q time r a0 =
  match nth_error q.q_cells r with
  | Some row ->
    let c = q_slot q (q_offset a q time) in
    Some { q_cells = (upd q.q_cells r (row_add madd row c a0)); q_ncols =
    q.q_ncols; q_start = q.q_start; q_next = q.q_next; q_dt = q.q_dt }
  | None -> None

(** val q_peek : 'a2 -> ('a1, 'a2) queue -> 'a2 list **)

let q_peek mzero q =
  map (fun row -> nth q.q_start row mzero) q.q_cells

(** val q_advance :
    'a1 arith -> 'a2 -> ('a1, 'a2) queue -> ('a1, 'a2) queue **)

let q_advance a mzero q =
  { q_cells = (map (fun row -> upd row q.q_start mzero) q.q_cells); q_ncols =
    q.q_ncols; q_start = (Nat.modulo (add q.q_start (S O)) q.q_ncols);
    q_next = (a.fadd q.q_next q.q_dt); q_dt = q.q_dt }

(** val q_set_time :
    'a1 arith -> ('a1, 'a2) queue -> 'a1 -> ('a1, 'a2) queue **)

let q_set_time a q t =
  { q_cells = q.q_cells; q_ncols = q.q_ncols; q_start = q.q_start; q_next =
    (a.fadd t q.q_dt); q_dt = q.q_dt }

(** val q_copy : ('a1, 'a2) queue -> ('a1, 'a2) queue **)

let q_copy q =
  q

(** val q_clear_copy : 'a2 -> ('a1, 'a2) queue -> ('a1, 'a2) queue **)

let q_clear_copy mzero q =
  { q_cells = (repeat (repeat mzero q.q_ncols) (length q.q_cells)); q_ncols =
    q.q_ncols; q_start = q.q_start; q_next = q.q_next; q_dt = q.q_dt }

(** val q_pending : 'a2 -> ('a1, 'a2) queue -> nat -> nat -> 'a2 **)

let q_pending mzero q off r =
  nth (q_slot q off) (nth r q.q_cells []) mzero

(** val binom_draws :
    'a1 arith -> nat -> 'a1 -> (nat -> 'a1) -> nat -> nat -> nat * nat **)

let rec binom_draws a n p u pos acc =
  match n with
  | O -> (acc, pos)
  | S k ->
    binom_draws a k p u (S pos) (if a.fltb (u pos) p then S acc else acc)

(** val binom_rnd_f :
    'a1 arith -> 'a1 -> 'a1 -> (nat -> 'a1) -> nat -> 'a1 * nat **)

let binom_rnd_f a n p u pos =
  let (c, pos') =
    binom_draws a
      (Z.to_nat
        (a.ftrunc
          (a.fadd n (a.fdiv (a.fofZ (Zpos XH)) (a.fofZ (Zpos (XO XH))))))) p
      u pos O
  in
  ((a.fofZ (Z.of_nat c)), pos')

(** val part_cells :
    'a1 arith -> (nat * nat) list -> 'a1 list list -> 'a1 list list -> 'a1
    list list -> 'a1 -> (nat -> 'a1) -> nat -> ('a1 list list * 'a1 list
    list) * nat **)

let rec part_cells a order src q1 q2 p u pos =
  match order with
  | [] -> ((q1, q2), pos)
  | p0 :: rest ->
    let (r, c) = p0 in
    let v = nth c (nth r src []) a.f0 in
    let (b, pos') = binom_rnd_f a v p u pos in
    let q1' = upd q1 r (upd (nth r q1 []) c b) in
    let q2' = upd q2 r (upd (nth r q2 []) c (a.fsub v b)) in
    part_cells a rest src q1' q2' p u pos'

(** val part_order : nat -> nat -> (nat * nat) list **)

let part_order nrx ncols =
  flat_map (fun c -> map (fun r -> (r, c)) (seq O nrx)) (seq O ncols)

(** val q_partition :
    'a1 arith -> ('a1, 'a1) queue -> 'a1 -> (nat -> 'a1) -> nat -> (('a1,
    'a1) queue * ('a1, 'a1) queue) * nat **)

let q_partition a q p u pos =
  let z0 = (q_clear_copy a.f0 q).q_cells in
  let (p0, pos') =
    part_cells a (part_order (length q.q_cells) q.q_ncols) q.q_cells z0 z0 p
      u pos
  in
  let (c1, c2) = p0 in
  (({ q_cells = c1; q_ncols = q.q_ncols; q_start = q.q_start; q_next =
  q.q_next; q_dt = q.q_dt }, { q_cells = c2; q_ncols = q.q_ncols; q_start =
  q.q_start; q_next = q.q_next; q_dt = q.q_dt }), pos')
