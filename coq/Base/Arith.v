(* The arithmetic record: one model, three arithmetics (R for theorems, Q for Examples,
   hardware doubles supplied by the OCaml driver after extraction). *)
From Coq Require Import ZArith QArith Reals List Bool.
Import ListNotations.

Record Arith (F : Type) := mkArith {
  f0 : F; f1 : F;
  fadd : F -> F -> F; fsub : F -> F -> F; fmul : F -> F -> F; fdiv : F -> F -> F;
  fneg : F -> F; fabs : F -> F;
  fofZ : Z -> F;
  fltb : F -> F -> bool; fleb : F -> F -> bool; feqb : F -> F -> bool;
  fpow : F -> F -> F; fexp : F -> F; flog : F -> F; fcos : F -> F; fsqrt : F -> F;
  ftrunc : F -> Z;              (* C cast (int)x : truncation toward zero *)
  fisnan : F -> bool;
  ffinite : F -> bool
}.

Arguments f0 {F}. Arguments f1 {F}. Arguments fadd {F}. Arguments fsub {F}. Arguments fmul {F}.
Arguments fdiv {F}. Arguments fneg {F}. Arguments fabs {F}. Arguments fofZ {F}.
Arguments fltb {F}. Arguments fleb {F}. Arguments feqb {F}. Arguments fpow {F}.
Arguments fexp {F}. Arguments flog {F}. Arguments fcos {F}. Arguments fsqrt {F}.
Arguments ftrunc {F}. Arguments fisnan {F}. Arguments ffinite {F}.

(* ---------------- reals ---------------- *)
Definition Rltb (x y : R) : bool := if Rlt_dec x y then true else false.
Definition Rleb (x y : R) : bool := if Rle_dec x y then true else false.
Definition Reqb (x y : R) : bool := if Req_EM_T x y then true else false.
(* floor *)
Definition Rfloor (x : R) : Z := (up x - 1)%Z.
Definition Rtrunc (x : R) : Z := if Rle_dec 0 x then Rfloor x else (- Rfloor (- x))%Z.
(* C's pow on the non-negative base domain *)
Definition rpow (x y : R) : R :=
  if Req_EM_T x 0 then (if Req_EM_T y 0 then 1%R else 0%R) else Rpower x y.

Definition ArithR : Arith R :=
  mkArith R 0%R 1%R Rplus Rminus Rmult Rdiv Ropp Rabs IZR Rltb Rleb Reqb rpow exp ln cos sqrt Rtrunc
          (fun _ => false) (fun _ => true).

Lemma Rltb_true x y : Rltb x y = true <-> (x < y)%R.
Proof. unfold Rltb; destruct (Rlt_dec x y); split; intros; auto; discriminate. Qed.
Lemma Rltb_false x y : Rltb x y = false <-> (y <= x)%R.
Proof. unfold Rltb; destruct (Rlt_dec x y); split; intros; auto; try discriminate.
  - exfalso. apply (Rlt_irrefl x). eapply Rlt_le_trans; eauto.
  - apply Rnot_lt_le; auto. Qed.
Lemma Rleb_true x y : Rleb x y = true <-> (x <= y)%R.
Proof. unfold Rleb; destruct (Rle_dec x y); split; intros; auto; discriminate. Qed.
Lemma Rleb_false x y : Rleb x y = false <-> (y < x)%R.
Proof. unfold Rleb; destruct (Rle_dec x y); split; intros; auto; try discriminate.
  - exfalso. apply (Rlt_irrefl x). eapply Rle_lt_trans; eauto.
  - apply Rnot_le_lt; auto. Qed.
Lemma Reqb_true x y : Reqb x y = true <-> x = y.
Proof. unfold Reqb; destruct (Req_EM_T x y); split; intros; auto; discriminate. Qed.

(* ---------------- rationals ---------------- *)
Definition Qpoison : Q := (-987654321 # 1)%Q.
Definition Qpowq (x y : Q) : Q :=
  if Pos.eqb (Qden (Qred y)) 1 then Qred (Qpower x (Qnum (Qred y))) else Qpoison.
Definition Qtrunc (x : Q) : Z := Z.quot (Qnum x) (Zpos (Qden x)).
Definition Qltb (x y : Q) : bool := negb (Qle_bool y x).

Definition ArithQ : Arith Q :=
  mkArith Q 0%Q 1%Q (fun x y => Qred (x + y)) (fun x y => Qred (x - y)) (fun x y => Qred (x * y))
          (fun x y => Qred (x / y)) (fun x => Qred (- x)) (fun x => Qred (Qabs.Qabs x))
          (fun z => inject_Z z) Qltb Qle_bool Qeq_bool Qpowq
          (fun _ => Qpoison) (fun _ => Qpoison) (fun _ => Qpoison) (fun _ => Qpoison) Qtrunc
          (fun _ => false) (fun _ => true).

(* ---------------- small vector helpers shared by all models ---------------- *)
Section Vec.
  Context {T : Type}.
  Fixpoint upd (l : list T) (i : nat) (v : T) : list T :=
    match l, i with
    | [], _ => []
    | _ :: t, O => v :: t
    | h :: t, S j => h :: upd t j v
    end.
  Lemma upd_length l i v : length (upd l i v) = length l.
  Proof. revert i; induction l as [|h t IH]; intros [|j]; simpl; auto. Qed.
  Lemma nth_error_upd_same l i v : (i < length l)%nat -> nth_error (upd l i v) i = Some v.
  Proof. revert i; induction l as [|h t IH]; intros [|j] H; simpl in *; try (exfalso; inversion H; fail); auto.
    apply IH. apply Nat.succ_lt_mono; auto. Qed.
  Lemma nth_error_upd_other l i j v : i <> j -> nth_error (upd l i v) j = nth_error l j.
  Proof. revert i j; induction l as [|h t IH]; intros [|i] [|j] H; simpl; auto; try congruence. Qed.
End Vec.
