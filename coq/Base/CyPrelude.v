(* Hand-written, static prelude of the Cython-to-Gallina translator (tools/tr_cython.py): the few combinators the
   generated definitions are built from.  No proofs here. *)
From Coq Require Import ZArith List Bool.
From BS Require Import Base.Arith.
Import ListNotations.

(* for i in range(n): acc = body i acc *)
Definition for_range {S : Type} (n : nat) (body : nat -> S -> S) (init : S) : S :=
  fold_left (fun a i => body i a) (seq 0 n) init.

(* Cython's max(a, b) on C doubles: (b > a) ? b : a *)
Definition cy_max {F} (A : Arith F) (a b : F) : F := if fltb A a b then b else a.

(* 2-D array cells: a[i, j] and a[i, j] = v (out of range: default / unchanged) *)
Definition get2 {M} (d : M) (a : list (list M)) (i j : nat) : M := nth j (nth i a []) d.
Definition set2 {M} (a : list (list M)) (i j : nat) (v : M) : list (list M) :=
  match nth_error a i with Some row => upd a i (upd row j v) | None => a end.

(* Python's y**2 on floats as the hand models write it *)
Definition py_sq {F} (A : Arith F) (y : F) : F := fmul A y y.
