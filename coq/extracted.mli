
type nat =
| O
| S of nat

val snd : ('a1 * 'a2) -> 'a2

val length : 'a1 list -> nat

val app : 'a1 list -> 'a1 list -> 'a1 list

type comparison =
| Eq
| Lt
| Gt

val compOpp : comparison -> comparison

val add : nat -> nat -> nat

val sub : nat -> nat -> nat

type positive =
| XI of positive
| XO of positive
| XH

type z =
| Z0
| Zpos of positive
| Zneg of positive

module Nat :
 sig
  val sub : nat -> nat -> nat

  val divmod : nat -> nat -> nat -> nat -> nat * nat

  val modulo : nat -> nat -> nat
 end

module Pos :
 sig
  val succ : positive -> positive

  val compare_cont : comparison -> positive -> positive -> comparison

  val compare : positive -> positive -> comparison

  val iter_op : ('a1 -> 'a1 -> 'a1) -> positive -> 'a1 -> 'a1

  val to_nat : positive -> nat

  val of_succ_nat : nat -> positive
 end

module Z :
 sig
  val compare : z -> z -> comparison

  val ltb : z -> z -> bool

  val geb : z -> z -> bool

  val to_nat : z -> nat

  val of_nat : nat -> z
 end

val nth : nat -> 'a1 list -> 'a1 -> 'a1

val nth_error : 'a1 list -> nat -> 'a1 option

val map : ('a1 -> 'a2) -> 'a1 list -> 'a2 list

val flat_map : ('a1 -> 'a2 list) -> 'a1 list -> 'a2 list

val seq : nat -> nat -> nat list

val repeat : 'a1 -> nat -> 'a1 list

type 'f arith = { f0 : 'f; f1 : 'f; fadd : ('f -> 'f -> 'f);
                  fsub : ('f -> 'f -> 'f); fmul : ('f -> 'f -> 'f);
                  fdiv : ('f -> 'f -> 'f); fneg : ('f -> 'f);
                  fabs : ('f -> 'f); fofZ : (z -> 'f);
                  fltb : ('f -> 'f -> bool); fleb : ('f -> 'f -> bool);
                  feqb : ('f -> 'f -> bool); fpow : ('f -> 'f -> 'f);
                  fexp : ('f -> 'f); flog : ('f -> 'f); fcos : ('f -> 'f);
                  fsqrt : ('f -> 'f); ftrunc : ('f -> z);
                  fisnan : ('f -> bool) }

val upd : 'a1 list -> nat -> 'a1 -> 'a1 list

type ('f, 'm) queue = { q_cells : 'm list list; q_ncols : nat; q_start : 
                        nat; q_next : 'f; q_dt : 'f }

val half : 'a1 arith -> 'a1

val q_make : 'a1 arith -> 'a2 -> nat -> nat -> 'a1 -> 'a1 -> ('a1, 'a2) queue

val q_raw_index : 'a1 arith -> ('a1, 'a2) queue -> 'a1 -> z

val q_offset : 'a1 arith -> ('a1, 'a2) queue -> 'a1 -> nat

val q_slot : ('a1, 'a2) queue -> nat -> nat

val row_add : ('a1 -> 'a1 -> 'a1) -> 'a1 list -> nat -> 'a1 -> 'a1 list

val q_add :
  'a1 arith -> ('a2 -> 'a2 -> 'a2) -> ('a1, 'a2) queue -> 'a1 -> nat -> 'a2
  -> ('a1, 'a2) queue option

val q_peek : 'a2 -> ('a1, 'a2) queue -> 'a2 list

val q_advance : 'a1 arith -> 'a2 -> ('a1, 'a2) queue -> ('a1, 'a2) queue

val q_set_time : 'a1 arith -> ('a1, 'a2) queue -> 'a1 -> ('a1, 'a2) queue

val q_copy : ('a1, 'a2) queue -> ('a1, 'a2) queue

val q_clear_copy : 'a2 -> ('a1, 'a2) queue -> ('a1, 'a2) queue

val q_pending : 'a2 -> ('a1, 'a2) queue -> nat -> nat -> 'a2

val binom_draws :
  'a1 arith -> nat -> 'a1 -> (nat -> 'a1) -> nat -> nat -> nat * nat

val binom_rnd_f : 'a1 arith -> 'a1 -> 'a1 -> (nat -> 'a1) -> nat -> 'a1 * nat

val part_cells :
  'a1 arith -> (nat * nat) list -> 'a1 list list -> 'a1 list list -> 'a1 list
  list -> 'a1 -> (nat -> 'a1) -> nat -> ('a1 list list * 'a1 list list) * nat

val part_order : nat -> nat -> (nat * nat) list

val q_partition :
  'a1 arith -> ('a1, 'a1) queue -> 'a1 -> (nat -> 'a1) -> nat -> (('a1, 'a1)
  queue * ('a1, 'a1) queue) * nat
